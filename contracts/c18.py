"""C18 -- files with template or parse errors are never modified by fix.   Functions under contract (pyvc, symbolic):
   sqlfluff.api.simple:fix                                   the API gate (text returned unchanged)
   sqlfluff.core.linter.linting_result:LintingResult.count_tmp_prs_errors
   sqlfluff.core.linter.linted_dir:LintedDir.discard_fixes_for_lint_errors_in_files_with_tmp_or_prs_errors   (also C22)
   sqlfluff.cli.commands:_handle_unparsable                  C18 clause only: no applicable fix is left in an unparsable file
   sqlfluff.cli.commands:_stdin_fix#stdout                   C18 clause only: stdout is the ORIGINAL text (exit codes: C22)
   sqlfluff.core.linter.linted_file:LintedFile.persist_tree  a file without a fixable violation is never written
   sqlfluff.core.linter.linter:Linter.lint_paths#apply-fixes-gate        REGION: no write for a file with a TMP/PRS error
   sqlfluff.core.linter.linter:Linter.lint_fix_parsed#loop-limit-rollback REGION: saved tree returned, every fix emptied
UI objects (formatter, click) are sinks (pyvc.ty.SINK): calls on them are no-ops on the tracked state.
Not proofs (contracts/c18_bounded.py, labelled): EXTRA syntactic context obligations of the rollback region; BOUNDED route
matrix (CLI stdin / CLI paths / API / lint_paths) and loop-limit matrix (non-converging custom rule, tiny runaway limits).
NOTE for C22: contracts/c22.py imports this module and then registers ITS OWN contracts of _handle_unparsable / _stdin_fix
(and the same assumed externals) under the same keys, which replace the C18 ones in a `./check C22` run.
"""
from pyvc.dsl import contract, external, spec, lemma, implies, iff, inline, ref_class, rec_class
from pyvc.ty import INT, BOOL, Text, TList, TTuple, TOpt, TDict, SINK, TOpaque

PROP = "C18"

FluffConfig = ref_class("sqlfluff.core.config.fluffconfig:FluffConfig")
SQLBaseError = ref_class("sqlfluff.core.errors:SQLBaseError")
LintedFile = ref_class("sqlfluff.core.linter.linted_file:LintedFile", path=Text, violations=TList(SQLBaseError))
LintedDir = ref_class("sqlfluff.core.linter.linted_dir:LintedDir", files=TList(LintedFile),
                      num_unfiltered_tmp_prs_errors=INT, num_tmp_prs_errors=INT, num_unfixable_lint_errors=INT,
                      retain_files=BOOL)
LintingResult = ref_class("sqlfluff.core.linter.linting_result:LintingResult", paths=TList(LintedDir),
                          g_fixable_lint=INT, g_unfixable_lint=INT, g_templater=INT)
Linter = ref_class("sqlfluff.core.linter.linter:Linter", config=FluffConfig)


# ------------------------------------------------------------------ specification
@spec
def counters_ok(r):
    """LintedDir counters are sums of per-file counts: never negative (LintedDir.add only adds lengths)"""
    return all(r.paths[i].num_unfiltered_tmp_prs_errors >= 0 and r.paths[i].num_tmp_prs_errors >= 0
               for i in range(len(r.paths)))


@spec
def has_tmp_prs(r):
    """some file of the result has a templating or parsing error -- counted BEFORE noqa / ignore suppression"""
    return any(r.paths[i].num_unfiltered_tmp_prs_errors > 0 for i in range(len(r.paths)))


@spec
def has_live_tmp_prs(r):
    return any(r.paths[i].num_tmp_prs_errors > 0 for i in range(len(r.paths)))


# ------------------------------------------------------------------ LintingResult
@contract("sqlfluff.core.linter.linting_result:LintingResult.count_tmp_prs_errors", PROP)
class count_tmp_prs_errors:
    types = {"self": LintingResult}
    ret = TTuple(INT, INT)

    def requires(self):
        return counters_ok(self)

    def ensures(self, result):
        return (result[0] >= 0 and result[1] >= 0
                and (result[0] > 0) == has_tmp_prs(self) and (result[1] > 0) == has_live_tmp_prs(self))


# ------------------------------------------------------------------ the API gate
@external("sqlfluff.api.simple:get_simple_config", PROP)
class get_simple_config:
    types = {"dialect": TOpt(Text), "rules": TOpt(TList(Text)), "exclude_rules": TOpt(TList(Text)), "config_path": TOpt(Text)}
    ret = FluffConfig

    def ensures(dialect, rules, exclude_rules, config_path, result):
        return True


@external("sqlfluff.core.linter.linter:Linter", PROP)
class linter_init:
    types = {"self": Linter, "config": TOpt(FluffConfig)}
    params = ["self", "config"]

    def ensures(self, config):
        return True


@external("sqlfluff.core.linter.linter:Linter.lint_string_wrapped", PROP)
class lint_string_wrapped:
    """havoc: any single-file result whose counters are sums of lengths"""
    types = {"self": Linter, "string": Text, "fname": Text, "fix": BOOL, "stdin_filename": TOpt(Text)}
    ret = LintingResult

    def ensures(self, string, fname="<string input>", fix=False, stdin_filename=None, result=None):
        return (counters_ok(result) and len(result.paths) == 1 and len(result.paths[0].files) == 1
                and result.g_fixable_lint >= 0 and result.g_unfixable_lint >= 0 and result.g_templater >= 0)


@external("sqlfluff.core.config.fluffconfig:FluffConfig.get", PROP)
class config_get:
    types = {"self": FluffConfig, "val": Text, "section": Text}
    ret = TOpt(BOOL)

    def ensures(self, val, section="core", default=None, result=None):
        return True


@external("sqlfluff.core.linter.linted_file:LintedFile.fix_string", PROP)
class fix_string:
    types = {"self": LintedFile}
    ret = TTuple(Text, BOOL)

    def ensures(self, result):
        return True


@contract("sqlfluff.api.simple:fix", PROP)
class api_fix:
    types = {"sql": Text, "dialect": TOpt(Text), "rules": TOpt(TList(Text)), "exclude_rules": TOpt(TList(Text)),
             "config": TOpt(FluffConfig), "config_path": TOpt(Text), "fix_even_unparsable": TOpt(BOOL),
             "should_fix": BOOL}
    ret = Text
    ghost_out = {"lint_result": ("result", LintingResult), "feu": ("fix_even_unparsable", TOpt(BOOL))}
    # a configuration error (unknown dialect, no dialect at all, a config path that does not exist) is reported by raising
    # SQLFluffUserError: nothing is returned, so nothing was modified -- allowed, the property speaks about what IS returned
    raises = {"SQLFluffUserError": None}

    def ensures(sql, dialect, rules, exclude_rules, config, config_path, fix_even_unparsable, result, lint_result, feu):
        # unless fixing unparsable files is explicitly enabled, SQL with a templating or parsing error -- even a
        # suppressed one -- comes back unchanged
        return implies(not feu and has_tmp_prs(lint_result), result == sql)


TRUSTED = ["LintedDir counters are non-negative sums of per-file counts (counters_ok): established by LintedDir.add",
           "ghost counters: LintingResult.g_fixable_lint stands for num_violations(types=SQLLintError, fixable=True); LintedFile."
           "g_unfiltered_tmp_prs for num_violations(types=TMP_PRS_ERROR_TYPES, filter_ignore=False, filter_warning=False); LintedFile."
           "g_fixable for num_violations(fixable=True, filter_warning=False); their meaning in terms of the violation list is "
           "LintedFile.get_violations (C20) and is exercised end to end by the bounded route matrix",
           "LintingResult.discard_fixes_for_lint_errors_in_files_with_tmp_or_prs_errors (a loop over LintedDir's method, which IS "
           "verified) leaves a single-file result with a TMP/PRS error without fixable lint violations (assumed contract)",
           "region contracts: the statements before the verified range establish the declared types of the range's free variables; "
           "for the loop-limit rollback the context (else-branch of the fix loop, save_tree = the given tree) is checked syntactically "
           "(EXTRA rollback_context: discharged or undecided, never a violation by itself)",
           "`stdout` in _stdin_fix is the text handed to click.echo (click.echo is a sink); the bytes really written are compared in the "
           "bounded route matrix"]
NOT_COVERED = ["Linter.lint_fix_parsed outside the rollback statements (rule crawling, fix application, the other loop exits: a fix that "
               "leads back to a previous version of the file stops the loop as `stable` with the earlier fixes kept -- the property's "
               "second sentence is read as the loop LIMIT, its anchor)",
               "_paths_fix / do_fixes / LintingResult.persist_changes / LintedDir.persist_changes bodies: the --check route is decided by "
               "_handle_unparsable + LintedDir.discard + persist_tree contracts and by the bounded route matrix, the glue is not under contract",
               "Linter.lint_parsed's hand-over of lint_fix_parsed's result to LintedFile (bounded loop-limit matrix only)"]
EXPLANATION = ("Contract-based deductive verification (pyvc: VCs from the real source, z3) of the gates that keep fix/format from "
               "touching input with a templating/parsing error (API, CLI stdin, CLI gate, lint_paths gate, the write in persist_tree) and "
               "of the loop-limit rollback; two of these are region contracts (a statement range of a long function, extracted "
               "mechanically on every run).  The end-to-end behaviour through every route and the rollback's context are additionally "
               "checked by labelled bounded runs / syntactic obligations (not counted as proved).")
MUTANTS = [
    ("api_gate_filtered_count", "sqlfluff/api/simple.py", "        total_errors, _ = result.count_tmp_prs_errors()\n        if total_errors > 0:", "        _, total_errors = result.count_tmp_prs_errors()\n        if total_errors > 0:"),
    ("api_gate_inverted", "sqlfluff/api/simple.py", "    if not fix_even_unparsable:\n        # If fix_even_unparsable wasn't set", "    if fix_even_unparsable:\n        # If fix_even_unparsable wasn't set"),
    ("count_swapped", "sqlfluff/core/linter/linting_result.py", "        return total_errors, num_filtered_errors", "        return num_filtered_errors, total_errors"),
]


# ------------------------------------------------------------------ discarding the fixes of files with TMP/PRS errors
from pyvc.dsl import dict_class, was  # noqa: E402
from pyvc.ty import TDict  # noqa: E402,F811
from pyvc import exec as _X  # noqa: E402
import z3 as _z3  # noqa: E402

VDict = dict_class("ViolationRecord", fixes=TOpt(TList(SINK)), warning=TOpt(BOOL), code=SINK, description=SINK,
                   start_line_no=SINK, start_line_pos=SINK)
Record = dict_class("LintingRecord", filepath=Text, violations=TList(VDict))
SQLBaseErrorF = ref_class("sqlfluff.core.errors:SQLBaseError", fixes=TList(SINK))
LintedDirD = ref_class("sqlfluff.core.linter.linted_dir:LintedDir", _records=TList(Record),
                       _unfiltered_tmp_prs_errors_map=TDict(Text, INT))
_is_lint_fn = _z3.Function("is_lint_error", _z3.IntSort(), _z3.BoolSort())


def _isinstance_hook(ex, st, v, cls):
    from sqlfluff.core.errors import SQLLintError
    if cls is SQLLintError:
        return ex.apply_spec(st, is_lint, [v], {}).z
    raise _X.Unsupported(f"isinstance(violation, {cls.__name__})")


_X.ISINSTANCE_HOOK["SQLBaseError"] = _isinstance_hook


@spec(uninterpreted=True)
def is_lint(v: SQLBaseError) -> BOOL:
    """dynamic class of a violation is SQLLintError"""
    from sqlfluff.core.errors import SQLLintError
    return isinstance(v, SQLLintError)


@spec
def dir_ok(d):
    """LintedDir.add records an entry of the per-path map for every retained file and every record"""
    return (d.num_unfixable_lint_errors >= 0 and d.num_unfiltered_tmp_prs_errors >= 0
            and all(d.files[i].path in d._unfiltered_tmp_prs_errors_map for i in range(len(d.files)))
            and all(d._records[i].filepath in d._unfiltered_tmp_prs_errors_map for i in range(len(d._records)))
            and all(d._unfiltered_tmp_prs_errors_map[d.files[i].path] >= 0 for i in range(len(d.files)))
            and all(d._unfiltered_tmp_prs_errors_map[d._records[i].filepath] >= 0 for i in range(len(d._records)))
            # the total is the sum of the per-file counts: zero total <=> every per-file count zero
            and implies(d.num_unfiltered_tmp_prs_errors == 0,
                        all(d._unfiltered_tmp_prs_errors_map[d.files[i].path] == 0 for i in range(len(d.files)))))


@spec
def only_cleared(d, old):
    """the only change ever made to a record's fixes is clearing them"""
    return all(d._records[i].violations[j].fixes == was(old, d._records[i].violations[j]).fixes
               or (d._records[i].violations[j].fixes is not None and len(d._records[i].violations[j].fixes) == 0)
               for i in range(len(d._records)) for j in range(len(d._records[i].violations)))


@spec
def counted(d, old, i, j):
    """record i / violation j is what the counter may count: a non-warning record that HAD fixes, in a file with a
    template/parse error"""
    return (d._unfiltered_tmp_prs_errors_map[d._records[i].filepath] > 0
            and was(old, d._records[i].violations[j]).fixes is not None
            and len(was(old, d._records[i].violations[j]).fixes) > 0
            and not d._records[i].violations[j].warning)


@contract("sqlfluff.core.linter.linted_dir:LintedDir.discard_fixes_for_lint_errors_in_files_with_tmp_or_prs_errors", (PROP, "C22"))
class dir_discard:
    types = {"self": LintedDir}
    modifies = ["self.num_unfixable_lint_errors", "heap:ViolationRecord.fixes", "heap:SQLBaseError.fixes"]

    def requires(self):
        return dir_ok(self)

    def ensures(self, old):
        return (
            # every lint violation of a retained file WITH a template/parse error (counted before suppression)
            # has lost its fixes: nothing in such a file can be applied any more
            all(implies(self._unfiltered_tmp_prs_errors_map[self.files[i].path] > 0,
                        all(implies(is_lint(self.files[i].violations[j]), len(self.files[i].violations[j].fixes) == 0)
                            for j in range(len(self.files[i].violations))))
                for i in range(len(self.files)))
            # the unfixable counter only grows ...
            and self.num_unfixable_lint_errors >= old.self.num_unfixable_lint_errors
            # ... and only because of a NON-WARNING record that had fixes, in a file with a template/parse error
            # (C22: warnings never cause a non-zero exit)
            and implies(self.num_unfixable_lint_errors > old.self.num_unfixable_lint_errors,
                        any(counted(self, old, i, j) for i in range(len(self._records))
                            for j in range(len(self._records[i].violations)))))

    def inv_1(self, old, _i):          # records
        return (self.num_unfixable_lint_errors >= old.self.num_unfixable_lint_errors and only_cleared(self, old)
                and implies(self.num_unfixable_lint_errors > old.self.num_unfixable_lint_errors,
                            any(counted(self, old, i, j) for i in range(0, _i)
                                for j in range(len(self._records[i].violations)))))

    def inv_2(self, old, _i1, _i, record):              # v_dicts of one record
        return (self.num_unfixable_lint_errors >= old.self.num_unfixable_lint_errors and only_cleared(self, old)
                and 0 <= _i1 < len(self._records) and record is self._records[_i1]
                and self._unfiltered_tmp_prs_errors_map[record.filepath] > 0
                and implies(self.num_unfixable_lint_errors > old.self.num_unfixable_lint_errors,
                            any(counted(self, old, i, j) for i in range(0, _i1)
                                for j in range(len(self._records[i].violations)))
                            or any(counted(self, old, _i1, j) for j in range(0, _i))))

    def inv_3(self, old, _i):          # files
        return (self.num_unfixable_lint_errors >= old.self.num_unfixable_lint_errors
                and all(implies(self._unfiltered_tmp_prs_errors_map[self.files[i].path] > 0,
                                all(implies(is_lint(self.files[i].violations[j]), len(self.files[i].violations[j].fixes) == 0)
                                    for j in range(len(self.files[i].violations))))
                        for i in range(0, _i)))

    def inv_4(self, old, _i3, _i, linted_file):     # violations of one file
        return (self.num_unfixable_lint_errors >= old.self.num_unfixable_lint_errors
                and 0 <= _i3 < len(self.files) and linted_file is self.files[_i3]
                and self._unfiltered_tmp_prs_errors_map[linted_file.path] > 0
                and all(implies(self._unfiltered_tmp_prs_errors_map[self.files[i].path] > 0,
                                all(implies(is_lint(self.files[i].violations[j]), len(self.files[i].violations[j].fixes) == 0)
                                    for j in range(len(self.files[i].violations))))
                        for i in range(0, _i3))
                and all(implies(is_lint(linted_file.violations[j]), len(linted_file.violations[j].fixes) == 0)
                        for j in range(0, _i)))


MUTANTS += [
    ("warnings_counted_again", "sqlfluff/core/linter/linted_dir.py", "                            if not v_dict.get(\"warning\"):\n                                self.num_unfixable_lint_errors += 1", "                            self.num_unfixable_lint_errors += 1"),
    ("discard_skips_last_violation", "sqlfluff/core/linter/linted_dir.py", "                    for violation in linted_file.violations:\n                        if isinstance(violation, SQLLintError):", "                    for violation in linted_file.violations[:-1]:\n                        if isinstance(violation, SQLLintError):"),
    ("discard_keyed_on_filtered_count", "sqlfluff/core/linter/linted_dir.py", "        if self.num_unfiltered_tmp_prs_errors:\n            # Filter serialised", "        if self.num_tmp_prs_errors:\n            # Filter serialised"),
]


# ------------------------------------------------------------------ the CLI gate and the stdin route (fix - / format -)
# C18-specific contracts of _handle_unparsable and _stdin_fix: ONLY the property's clause (what is written to stdout);
# the exit-code clauses of these two functions belong to C22 (contracts/c22.py) and are not repeated here.
from pyvc import stmts as _stmts  # noqa: E402

_stmts.SINK_FUNCTIONS.update({"click.utils:echo"})
from sqlfluff.core.errors import SQLLintError as _SQLLintError, SQLTemplaterError as _SQLTemplaterError  # noqa: E402


@spec
def c18_single_file(r):
    """the stdin route lints exactly one (virtual) file"""
    return len(r.paths) == 1 and len(r.paths[0].files) == 1


@spec
def c18_types_lint(types):
    return types is _SQLLintError


@external("sqlfluff.core.linter.linting_result:LintingResult.discard_fixes_for_lint_errors_in_files_with_tmp_or_prs_errors", PROP)
class result_discard_fixes:
    """ASSUMED link (the per-directory method is verified above: dir_discard; LintingResult's loops over self.paths):
    after the call no lint violation of a file with a template/parse error keeps a fix, so -- for a single-file result
    with such an error -- no fixable lint violation is left; without such an error nothing changes.  Exercised end to
    end by the bounded route matrix below."""
    types = {"self": LintingResult}
    modifies = ["heap:LintingResult.g_fixable_lint", "heap:LintingResult.g_unfixable_lint"]

    def ensures(self, old):
        return (implies(c18_single_file(self) and has_tmp_prs(self), self.g_fixable_lint == 0)
                and implies(not has_tmp_prs(self), self.g_fixable_lint == old.self.g_fixable_lint
                            and self.g_unfixable_lint == old.self.g_unfixable_lint)
                and self.g_fixable_lint >= 0 and self.g_unfixable_lint >= old.self.g_unfixable_lint)


@external("sqlfluff.core.linter.linting_result:LintingResult.num_violations", PROP)
class result_num_violations:
    """ghost view: num_violations(types=SQLLintError, fixable=True) is the number of live lint violations that still
    carry fixes (g_fixable_lint); any other query is an arbitrary non-negative number"""
    types = {"self": LintingResult}
    ret = INT

    def ensures(self, types=None, fixable=None, result=0):
        return result >= 0 and implies(c18_types_lint(types) and fixable is True, result == self.g_fixable_lint)


@external("sqlfluff.core.linter.linted_file:LintedFile.get_violations", PROP)
class file_get_violations:
    types = {"self": LintedFile}
    ret = SINK

    def ensures(self, rules=None, types=None, filter_ignore=True, filter_warning=True, warn_unused_ignores=False,
                fixable=None, result=None):
        return True


@external("sys:exit", PROP)
class sys_exit:
    types = {"code": INT}
    params = ["code"]
    raises = {"SystemExit": None}

    def ensures(code):
        return False          # never returns


@external("io:read", PROP)
class stdin_read:
    types = {}
    params = []
    ret = Text

    def ensures(result):
        return True


@contract("sqlfluff.cli.commands:_handle_unparsable", PROP)
class handle_unparsable:
    types = {"fix_even_unparsable": BOOL, "initial_exit_code": INT, "linting_result": LintingResult, "formatter": SINK,
             "tmp_prs_errors_by_file": SINK, "file_errors": SINK, "record_errors": SINK, "error": SINK,
             "code": SINK, "description": SINK, "line_no": SINK, "line_pos": SINK}
    ret = INT
    modifies = ["heap:LintingResult.g_fixable_lint", "heap:LintingResult.g_unfixable_lint"]

    def requires(fix_even_unparsable, initial_exit_code, linting_result, formatter):
        return counters_ok(linting_result) and linting_result.g_fixable_lint >= 0 and linting_result.g_unfixable_lint >= 0

    def ensures(fix_even_unparsable, initial_exit_code, linting_result, formatter, result, old):
        # unless fixing unparsable files is enabled: a (single) file with ANY template/parse error -- even a suppressed
        # one -- is left with no applicable fix; a result without such errors is not touched
        return (implies(not fix_even_unparsable and c18_single_file(linting_result) and has_tmp_prs(linting_result),
                        linting_result.g_fixable_lint == 0)
                and implies(fix_even_unparsable or not has_tmp_prs(linting_result),
                            linting_result.g_fixable_lint == old.linting_result.g_fixable_lint)
                and linting_result.g_fixable_lint >= 0)

    def inv_1(linting_result):
        return True

    def inv_2(linting_result):
        return True

    def inv_3(linting_result):
        return True

    def inv_4(linting_result):
        return True


@contract("sqlfluff.cli.commands:_stdin_fix#stdout", PROP)
class stdin_fix_stdout:
    types = {"linter": Linter, "formatter": SINK, "fix_even_unparsable": BOOL, "stdin_filename": TOpt(Text),
             "stdout": Text, "stdin": Text, "exit_code": INT, "templater_error": BOOL, "unfixable_error": BOOL,
             "result": LintingResult}
    raises = {"SystemExit": None}

    def hint_on_raise(linter, formatter, fix_even_unparsable, stdin_filename, exc_class, stdout, stdin, result):
        # the function always ends in sys.exit; unless fixing unparsable input is enabled, input with a template/parse
        # error -- even a suppressed one -- is echoed back unchanged (`stdout` is the text handed to click.echo)
        return (exc_class == "SystemExit"
                and implies(not fix_even_unparsable and has_tmp_prs(result), stdout == stdin))

    def ensures(linter, formatter, fix_even_unparsable, stdin_filename):
        return False          # never returns normally


# ------------------------------------------------------------------ the fix loop's loop-limit rollback (region contract)
# Linter.lint_fix_parsed is ~250 lines (rule crawling, fix application); the statements that run when the fix loop hits
# its limit are the tail of the `for loop in range(...)` loop's else-branch.  pyvc extracts that range from the real
# source on every run and verifies it as a function of the locals it reads.
Tree = TOpaque("BaseSegment")
Mask = TOpaque("IgnoreMaskOpt")
Timings = TOpaque("RuleTimings")


@contract("sqlfluff.core.linter.linter:Linter.lint_fix_parsed#loop-limit-rollback", PROP)
class loop_limit_rollback:
    region = ("for violation in initial_linting_errors:", None)
    # `tree` (the working tree, with fixes applied) is not read by the unchanged code: it is declared so that an edit handing
    # IT back instead of the saved tree is decided here (a different, arbitrary tree) rather than reported as unbound
    region_params = ["initial_linting_errors", "save_tree", "ignore_mask", "rule_timings", "tree"]
    types = {"initial_linting_errors": TList(SQLBaseErrorF), "save_tree": Tree, "ignore_mask": Mask, "rule_timings": Timings,
             "tree": Tree}
    ret = TTuple(Tree, TList(SQLBaseErrorF), Mask, Timings)
    modifies = ["heap:SQLBaseError.fixes"]

    def ensures(initial_linting_errors, save_tree, ignore_mask, rule_timings, tree, result):
        # when the fix loop cannot reach a stable result: the tree handed back is the one saved before any fix was
        # applied (-> the file is left unchanged), the violations handed back are the initial ones, and EVERY lint
        # violation among them has lost its fixes (-> all reported as unfixable)
        return (result[0] == save_tree
                and result[1] == initial_linting_errors
                and all(implies(is_lint(result[1][j]), len(result[1][j].fixes) == 0) for j in range(len(result[1]))))

    def inv_1(initial_linting_errors, _i):
        return all(implies(is_lint(initial_linting_errors[j]), len(initial_linting_errors[j].fixes) == 0)
                   for j in range(0, _i))


# ------------------------------------------------------------------ the writes: LintedFile.persist_tree and the lint_paths gate
# Ghost fields of LintedFile: g_unfiltered_tmp_prs = number of templating/parsing errors counted BEFORE noqa / ignore /
# warning filtering; g_fixable = number of live violations that still carry fixes; g_writes = number of times the file
# (or its suffixed sibling) has been written.  The only write is LintedFile._safe_create_replace_file.
LintedFileW = ref_class("sqlfluff.core.linter.linted_file:LintedFile", encoding=Text, g_unfiltered_tmp_prs=INT,
                        g_fixable=INT, g_writes=INT)
ref_class("sqlfluff.core.linter.linter:Linter", formatter=TOpt(SINK))
from sqlfluff.core.linter.linted_file import TMP_PRS_ERROR_TYPES as _TMP_PRS  # noqa: E402
from sqlfluff.core.errors import SQLParseError as _SQLParseError  # noqa: E402


@spec
def c18_types_tmp_prs(types):
    """the `types` argument selects exactly the templating and parsing errors"""
    return types is not None and types is _TMP_PRS


@external("sqlfluff.core.linter.linted_file:LintedFile.num_violations", PROP)
class file_num_violations:
    """ghost view of two counts (their meaning in terms of the violation list: LintedFile.get_violations, C20): only the
    query with BOTH filters off is the unfiltered template/parse error count; only fixable=True with warnings kept is
    the number of violations that still carry fixes; any other query is an arbitrary non-negative number"""
    types = {"self": LintedFile}
    ret = INT

    def ensures(self, types=None, filter_ignore=True, filter_warning=True, fixable=None, result=0):
        return (result >= 0
                and implies(c18_types_tmp_prs(types) and not filter_ignore and not filter_warning
                            and fixable is None, result == self.g_unfiltered_tmp_prs)
                and implies(types is None and filter_ignore and not filter_warning and fixable is True,
                            result == self.g_fixable))


@external("sqlfluff.core.linter.linted_file:LintedFile._safe_create_replace_file", PROP)
class safe_create_replace_file:
    """THE WRITE (temp file + os.replace): some file's write counter changes"""
    types = {"input_path": Text, "output_path": Text, "write_buff": Text, "encoding": Text}
    modifies = ["heap:LintedFile.g_writes"]

    def ensures(input_path, output_path, write_buff, encoding):
        return True


@external("posixpath:splitext", PROP)
class splitext:
    types = {"p": Text}
    ret = TTuple(Text, Text)

    def ensures(p, result):
        return True


@contract("sqlfluff.core.linter.linted_file:LintedFile.persist_tree", PROP)
class persist_tree:
    types = {"self": LintedFile, "suffix": Text, "formatter": TOpt(SINK), "write_buff": Text, "success": BOOL,
             "fname": Text, "root": Text, "ext": Text, "result_label": Text}
    ret = BOOL
    modifies = ["heap:LintedFile.g_writes"]

    def ensures(self, suffix, formatter, result, old):
        # a file none of whose violations carries a fix (that is what discarding the fixes / the loop-limit rollback
        # leave behind) is never written
        return implies(self.g_fixable <= 0, self.g_writes == old.self.g_writes)


@contract("sqlfluff.core.linter.linter:Linter.lint_paths#apply-fixes-gate", PROP)
class lint_paths_gate:
    region = ("if apply_fixes:", "progress_bar_files.update(n=1)")
    region_params = ["self", "apply_fixes", "linted_file", "fix_even_unparsable", "fixed_file_suffix"]
    types = {"self": Linter, "apply_fixes": BOOL, "linted_file": LintedFile, "fix_even_unparsable": BOOL,
             "fixed_file_suffix": Text, "num_tmp_prs_errors": INT}
    modifies = ["heap:LintedFile.g_writes"]

    def ensures(self, apply_fixes, linted_file, fix_even_unparsable, fixed_file_suffix, old):
        # unless fixing unparsable files is explicitly enabled, a file with a templating or parsing error -- counted
        # before any suppression -- is not written by lint_paths(apply_fixes=True)
        return implies(not fix_even_unparsable and linted_file.g_unfiltered_tmp_prs > 0,
                       linted_file.g_writes == old.linted_file.g_writes)


# ------------------------------------------------------------------ non-SMT parts (contracts/c18_bounded.py)
from . import c18_bounded as _c18b  # noqa: E402

EXTRA = list(_c18b.EXTRA)
BOUNDED = list(_c18b.BOUNDED)

MUTANTS += [
    # --- the stdin route / the CLI gate
    ("stdin_fixable_flag_before_discard", "sqlfluff/cli/commands.py",
     "    exit_code = _handle_unparsable(fix_even_unparsable, exit_code, result, formatter)\n\n    if result.num_violations(types=SQLLintError, fixable=True) > 0:\n        stdout =",
     "    fixable_error = result.num_violations(types=SQLLintError, fixable=True) > 0\n    exit_code = _handle_unparsable(fix_even_unparsable, exit_code, result, formatter)\n\n    if fixable_error:\n        stdout ="),
    ("stdin_any_lint_violation_triggers_fix_string", "sqlfluff/cli/commands.py",
     "    if result.num_violations(types=SQLLintError, fixable=True) > 0:\n        stdout =",
     "    if result.num_violations(types=SQLLintError) > 0:\n        stdout ="),
    ("handle_unparsable_no_discard", "sqlfluff/cli/commands.py",
     "    linting_result.discard_fixes_for_lint_errors_in_files_with_tmp_or_prs_errors()\n", "    pass\n"),
    ("handle_unparsable_discard_only_when_live_errors", "sqlfluff/cli/commands.py",
     "    linting_result.discard_fixes_for_lint_errors_in_files_with_tmp_or_prs_errors()\n",
     "    if num_filtered_errors:\n        linting_result.discard_fixes_for_lint_errors_in_files_with_tmp_or_prs_errors()\n"),
    # --- Linter.lint_paths' apply_fixes gate and the write itself
    ("lint_paths_gate_filtered_count", "sqlfluff/core/linter/linter.py",
     "                        types=TMP_PRS_ERROR_TYPES,\n                        filter_ignore=False,\n                        filter_warning=False,\n                    )\n                    if fix_even_unparsable",
     "                        types=TMP_PRS_ERROR_TYPES,\n                    )\n                    if fix_even_unparsable"),
    ("lint_paths_gate_always_open", "sqlfluff/core/linter/linter.py",
     "                    if fix_even_unparsable or num_tmp_prs_errors == 0:", "                    if fix_even_unparsable or num_tmp_prs_errors >= 0:"),
    ("lint_paths_gate_parse_errors_only", "sqlfluff/core/linter/linter.py",
     "                        types=TMP_PRS_ERROR_TYPES,\n                        filter_ignore=False,\n                        filter_warning=False,\n                    )\n                    if fix_even_unparsable",
     "                        types=SQLParseError,\n                        filter_ignore=False,\n                        filter_warning=False,\n                    )\n                    if fix_even_unparsable"),
    ("persist_tree_writes_without_fixable", "sqlfluff/core/linter/linted_file.py",
     "        if self.num_violations(fixable=True, filter_warning=False) > 0:\n            write_buff, success = self.fix_string()",
     "        if self.num_violations(fixable=True, filter_warning=False) >= 0:\n            write_buff, success = self.fix_string()"),
    # --- the loop-limit rollback
    ("rollback_keeps_fixes", "sqlfluff/core/linter/linter.py",
     "                        if isinstance(violation, SQLLintError):\n                            violation.fixes = []\n\n                    # Return the original parse tree",
     "                        if isinstance(violation, SQLLintError):\n                            pass\n\n                    # Return the original parse tree"),
    ("rollback_returns_current_tree", "sqlfluff/core/linter/linter.py",
     "                    return save_tree, initial_linting_errors, ignore_mask, rule_timings",
     "                    return tree, initial_linting_errors, ignore_mask, rule_timings"),
    ("rollback_skips_first_violation", "sqlfluff/core/linter/linter.py",
     "                    for violation in initial_linting_errors:\n                        if isinstance(violation, SQLLintError):\n                            violation.fixes = []",
     "                    for violation in initial_linting_errors[1:]:\n                        if isinstance(violation, SQLLintError):\n                            violation.fixes = []"),
    ("rollback_main_phase_only", "sqlfluff/core/linter/linter.py",
     "            else:\n                if fix:\n                    # The linter loop hit the limit",
     "            else:\n                if fix and phase == \"main\":\n                    # The linter loop hit the limit"),
    ("save_tree_taken_after_first_pass", "sqlfluff/core/linter/linter.py",
     "                    if is_first_linter_pass():\n                        initial_linting_errors += linting_errors\n",
     "                    if is_first_linter_pass():\n                        initial_linting_errors += linting_errors\n                    save_tree = tree\n"),
]
