"""C18 -- files with template or parse errors are never modified by fix.   Functions under contract:
   sqlfluff.api.simple:fix                      (the API gate)
   sqlfluff.cli.commands:_handle_unparsable, _stdin_fix   (the CLI gates; stdin output)
   sqlfluff.core.linter.linting_result:LintingResult.count_tmp_prs_errors, .discard_fixes_for_lint_errors_in_files_with_tmp_or_prs_errors
   sqlfluff.core.linter.linted_dir:LintedDir.discard_fixes_for_lint_errors_in_files_with_tmp_or_prs_errors
UI objects (formatter, click) are sinks (pyvc.ty.SINK): calls on them are no-ops on the tracked state.
"""
from pyvc.dsl import contract, external, spec, lemma, implies, iff, inline, ref_class, rec_class
from pyvc.ty import INT, BOOL, Text, TList, TTuple, TOpt, TDict, SINK, TOpaque

PROP = "C18"

FluffConfig = ref_class("sqlfluff.core.config.fluffconfig:FluffConfig")
SQLBaseError = ref_class("sqlfluff.core.errors:SQLBaseError")
LintedFile = ref_class("sqlfluff.core.linter.linted_file:LintedFile", path=Text, violations=TList(SQLBaseError))
LintedDir = ref_class("sqlfluff.core.linter.linted_dir:LintedDir", files=TList(LintedFile),
                      num_unfiltered_tmp_prs_errors=INT, num_tmp_prs_errors=INT, num_unfixable_lint_errors=INT,
                      retain_files=BOOL)
LintingResult = ref_class("sqlfluff.core.linter.linting_result:LintingResult", paths=TList(LintedDir),
                          g_fixable_lint=INT, g_unfixable_lint=INT, g_templater=INT)
Linter = ref_class("sqlfluff.core.linter.linter:Linter", config=FluffConfig)


# ------------------------------------------------------------------ specification
@spec
def counters_ok(r):
    """LintedDir counters are sums of per-file counts: never negative (LintedDir.add only adds lengths)"""
    return all(r.paths[i].num_unfiltered_tmp_prs_errors >= 0 and r.paths[i].num_tmp_prs_errors >= 0
               for i in range(len(r.paths)))


@spec
def has_tmp_prs(r):
    """some file of the result has a templating or parsing error -- counted BEFORE noqa / ignore suppression"""
    return any(r.paths[i].num_unfiltered_tmp_prs_errors > 0 for i in range(len(r.paths)))


@spec
def has_live_tmp_prs(r):
    return any(r.paths[i].num_tmp_prs_errors > 0 for i in range(len(r.paths)))


# ------------------------------------------------------------------ LintingResult
@contract("sqlfluff.core.linter.linting_result:LintingResult.count_tmp_prs_errors", PROP)
class count_tmp_prs_errors:
    types = {"self": LintingResult}
    ret = TTuple(INT, INT)

    def requires(self):
        return counters_ok(self)

    def ensures(self, result):
        return (result[0] >= 0 and result[1] >= 0
                and (result[0] > 0) == has_tmp_prs(self) and (result[1] > 0) == has_live_tmp_prs(self))


# ------------------------------------------------------------------ the API gate
@external("sqlfluff.api.simple:get_simple_config", PROP)
class get_simple_config:
    types = {"dialect": TOpt(Text), "rules": TOpt(TList(Text)), "exclude_rules": TOpt(TList(Text)), "config_path": TOpt(Text)}
    ret = FluffConfig

    def ensures(dialect, rules, exclude_rules, config_path, result):
        return True


@external("sqlfluff.core.linter.linter:Linter", PROP)
class linter_init:
    types = {"self": Linter, "config": TOpt(FluffConfig)}
    params = ["self", "config"]

    def ensures(self, config):
        return True


@external("sqlfluff.core.linter.linter:Linter.lint_string_wrapped", PROP)
class lint_string_wrapped:
    """havoc: any single-file result whose counters are sums of lengths"""
    types = {"self": Linter, "string": Text, "fname": Text, "fix": BOOL, "stdin_filename": TOpt(Text)}
    ret = LintingResult

    def ensures(self, string, fname="<string input>", fix=False, stdin_filename=None, result=None):
        return (counters_ok(result) and len(result.paths) == 1 and len(result.paths[0].files) == 1
                and result.g_fixable_lint >= 0 and result.g_unfixable_lint >= 0 and result.g_templater >= 0)


@external("sqlfluff.core.config.fluffconfig:FluffConfig.get", PROP)
class config_get:
    types = {"self": FluffConfig, "val": Text, "section": Text}
    ret = TOpt(BOOL)

    def ensures(self, val, section="core", default=None, result=None):
        return True


@external("sqlfluff.core.linter.linted_file:LintedFile.fix_string", PROP)
class fix_string:
    types = {"self": LintedFile}
    ret = TTuple(Text, BOOL)

    def ensures(self, result):
        return True


@contract("sqlfluff.api.simple:fix", PROP)
class api_fix:
    types = {"sql": Text, "dialect": TOpt(Text), "rules": TOpt(TList(Text)), "exclude_rules": TOpt(TList(Text)),
             "config": TOpt(FluffConfig), "config_path": TOpt(Text), "fix_even_unparsable": TOpt(BOOL),
             "should_fix": BOOL}
    ret = Text
    ghost_out = {"lint_result": ("result", LintingResult), "feu": ("fix_even_unparsable", TOpt(BOOL))}

    def ensures(sql, dialect, rules, exclude_rules, config, config_path, fix_even_unparsable, result, lint_result, feu):
        # unless fixing unparsable files is explicitly enabled, SQL with a templating or parsing error -- even a
        # suppressed one -- comes back unchanged
        return implies(not feu and has_tmp_prs(lint_result), result == sql)


TRUSTED = ["LintedDir counters are non-negative sums of per-file counts (counters_ok): established by LintedDir.add"]
NOT_COVERED = []
MUTANTS = [
    ("api_gate_filtered_count", "sqlfluff/api/simple.py", "        total_errors, _ = result.count_tmp_prs_errors()\n        if total_errors > 0:", "        _, total_errors = result.count_tmp_prs_errors()\n        if total_errors > 0:"),
    ("api_gate_inverted", "sqlfluff/api/simple.py", "    if not fix_even_unparsable:\n        # If fix_even_unparsable wasn't set", "    if fix_even_unparsable:\n        # If fix_even_unparsable wasn't set"),
    ("count_swapped", "sqlfluff/core/linter/linting_result.py", "        return total_errors, num_filtered_errors", "        return num_filtered_errors, total_errors"),
]


# ------------------------------------------------------------------ discarding the fixes of files with TMP/PRS errors
from pyvc.dsl import dict_class, was  # noqa: E402
from pyvc.ty import TDict  # noqa: E402,F811
from pyvc import exec as _X  # noqa: E402
import z3 as _z3  # noqa: E402

VDict = dict_class("ViolationRecord", fixes=TOpt(TList(SINK)), warning=TOpt(BOOL), code=SINK, description=SINK,
                   start_line_no=SINK, start_line_pos=SINK)
Record = dict_class("LintingRecord", filepath=Text, violations=TList(VDict))
SQLBaseErrorF = ref_class("sqlfluff.core.errors:SQLBaseError", fixes=TList(SINK))
LintedDirD = ref_class("sqlfluff.core.linter.linted_dir:LintedDir", _records=TList(Record),
                       _unfiltered_tmp_prs_errors_map=TDict(Text, INT))
_is_lint_fn = _z3.Function("is_lint_error", _z3.IntSort(), _z3.BoolSort())


def _isinstance_hook(ex, st, v, cls):
    from sqlfluff.core.errors import SQLLintError
    if cls is SQLLintError:
        return ex.apply_spec(st, is_lint, [v], {}).z
    raise _X.Unsupported(f"isinstance(violation, {cls.__name__})")


_X.ISINSTANCE_HOOK["SQLBaseError"] = _isinstance_hook


@spec(uninterpreted=True)
def is_lint(v: SQLBaseError) -> BOOL:
    """dynamic class of a violation is SQLLintError"""
    from sqlfluff.core.errors import SQLLintError
    return isinstance(v, SQLLintError)


@spec
def dir_ok(d):
    """LintedDir.add records an entry of the per-path map for every retained file and every record"""
    return (d.num_unfixable_lint_errors >= 0 and d.num_unfiltered_tmp_prs_errors >= 0
            and all(d.files[i].path in d._unfiltered_tmp_prs_errors_map for i in range(len(d.files)))
            and all(d._records[i].filepath in d._unfiltered_tmp_prs_errors_map for i in range(len(d._records)))
            and all(d._unfiltered_tmp_prs_errors_map[d.files[i].path] >= 0 for i in range(len(d.files)))
            and all(d._unfiltered_tmp_prs_errors_map[d._records[i].filepath] >= 0 for i in range(len(d._records)))
            # the total is the sum of the per-file counts: zero total <=> every per-file count zero
            and implies(d.num_unfiltered_tmp_prs_errors == 0,
                        all(d._unfiltered_tmp_prs_errors_map[d.files[i].path] == 0 for i in range(len(d.files)))))


@spec
def only_cleared(d, old):
    """the only change ever made to a record's fixes is clearing them"""
    return all(d._records[i].violations[j].fixes == was(old, d._records[i].violations[j]).fixes
               or (d._records[i].violations[j].fixes is not None and len(d._records[i].violations[j].fixes) == 0)
               for i in range(len(d._records)) for j in range(len(d._records[i].violations)))


@spec
def counted(d, old, i, j):
    """record i / violation j is what the counter may count: a non-warning record that HAD fixes, in a file with a
    template/parse error"""
    return (d._unfiltered_tmp_prs_errors_map[d._records[i].filepath] > 0
            and was(old, d._records[i].violations[j]).fixes is not None
            and len(was(old, d._records[i].violations[j]).fixes) > 0
            and not d._records[i].violations[j].warning)


@contract("sqlfluff.core.linter.linted_dir:LintedDir.discard_fixes_for_lint_errors_in_files_with_tmp_or_prs_errors", (PROP, "C22"))
class dir_discard:
    types = {"self": LintedDir}
    modifies = ["self.num_unfixable_lint_errors", "heap:ViolationRecord.fixes", "heap:SQLBaseError.fixes"]

    def requires(self):
        return dir_ok(self)

    def ensures(self, old):
        return (
            # every lint violation of a retained file WITH a template/parse error (counted before suppression)
            # has lost its fixes: nothing in such a file can be applied any more
            all(implies(self._unfiltered_tmp_prs_errors_map[self.files[i].path] > 0,
                        all(implies(is_lint(self.files[i].violations[j]), len(self.files[i].violations[j].fixes) == 0)
                            for j in range(len(self.files[i].violations))))
                for i in range(len(self.files)))
            # the unfixable counter only grows ...
            and self.num_unfixable_lint_errors >= old.self.num_unfixable_lint_errors
            # ... and only because of a NON-WARNING record that had fixes, in a file with a template/parse error
            # (C22: warnings never cause a non-zero exit)
            and implies(self.num_unfixable_lint_errors > old.self.num_unfixable_lint_errors,
                        any(counted(self, old, i, j) for i in range(len(self._records))
                            for j in range(len(self._records[i].violations)))))

    def inv_1(self, old, _i):          # records
        return (self.num_unfixable_lint_errors >= old.self.num_unfixable_lint_errors and only_cleared(self, old)
                and implies(self.num_unfixable_lint_errors > old.self.num_unfixable_lint_errors,
                            any(counted(self, old, i, j) for i in range(0, _i)
                                for j in range(len(self._records[i].violations)))))

    def inv_2(self, old, _i1, _i, record):              # v_dicts of one record
        return (self.num_unfixable_lint_errors >= old.self.num_unfixable_lint_errors and only_cleared(self, old)
                and 0 <= _i1 < len(self._records) and record is self._records[_i1]
                and self._unfiltered_tmp_prs_errors_map[record.filepath] > 0
                and implies(self.num_unfixable_lint_errors > old.self.num_unfixable_lint_errors,
                            any(counted(self, old, i, j) for i in range(0, _i1)
                                for j in range(len(self._records[i].violations)))
                            or any(counted(self, old, _i1, j) for j in range(0, _i))))

    def inv_3(self, old, _i):          # files
        return (self.num_unfixable_lint_errors >= old.self.num_unfixable_lint_errors
                and all(implies(self._unfiltered_tmp_prs_errors_map[self.files[i].path] > 0,
                                all(implies(is_lint(self.files[i].violations[j]), len(self.files[i].violations[j].fixes) == 0)
                                    for j in range(len(self.files[i].violations))))
                        for i in range(0, _i)))

    def inv_4(self, old, _i3, _i, linted_file):     # violations of one file
        return (self.num_unfixable_lint_errors >= old.self.num_unfixable_lint_errors
                and 0 <= _i3 < len(self.files) and linted_file is self.files[_i3]
                and self._unfiltered_tmp_prs_errors_map[linted_file.path] > 0
                and all(implies(self._unfiltered_tmp_prs_errors_map[self.files[i].path] > 0,
                                all(implies(is_lint(self.files[i].violations[j]), len(self.files[i].violations[j].fixes) == 0)
                                    for j in range(len(self.files[i].violations))))
                        for i in range(0, _i3))
                and all(implies(is_lint(linted_file.violations[j]), len(linted_file.violations[j].fixes) == 0)
                        for j in range(0, _i)))


MUTANTS += [
    ("warnings_counted_again", "sqlfluff/core/linter/linted_dir.py", "                            if not v_dict.get(\"warning\"):\n                                self.num_unfixable_lint_errors += 1", "                            self.num_unfixable_lint_errors += 1"),
    ("discard_skips_last_violation", "sqlfluff/core/linter/linted_dir.py", "                    for violation in linted_file.violations:\n                        if isinstance(violation, SQLLintError):", "                    for violation in linted_file.violations[:-1]:\n                        if isinstance(violation, SQLLintError):"),
    ("discard_keyed_on_filtered_count", "sqlfluff/core/linter/linted_dir.py", "        if self.num_unfiltered_tmp_prs_errors:\n            # Filter serialised", "        if self.num_tmp_prs_errors:\n            # Filter serialised"),
]
