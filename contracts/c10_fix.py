"""C10 -- fixes never edit template code: the FIRST line of defence (which fixes a rule may offer at all).
Functions under contract (imported by contracts/c10.py):
   sqlfluff.core.rules.fix:  LintFix._raw_slices_from_templated_slices, LintFix.get_fix_slices, LintFix.has_template_conflicts
   sqlfluff.core.rules.base: BaseRule.discard_unsafe_fixes
The templated -> source mapping itself (TemplatedFile.templated_slice_to_source_slice) is C07's subject: here it is an
uninterpreted, deterministic partial function (`maps` / `src_range`); everything is stated relative to it.
"""
from pyvc.dsl import contract, external, spec, lemma, implies, iff, inline, ref_class
from pyvc.ty import INT, BOOL, Text, TList, TSet, TTuple, TOpt, SLICE, TRef
from pyvc import replay as _replay

from .types import RawFileSlice, TemplatedFile
from .c23 import PositionMarker, SourceFix

PROP = "C10"

BaseSegment = ref_class("sqlfluff.core.parser.segments.base:BaseSegment", pos_marker=TOpt(PositionMarker), raw=Text,
                        source_fixes=TList(SourceFix), _source_fixes=TOpt(TList(SourceFix)))
LintFix = ref_class("sqlfluff.core.rules.fix:LintFix", edit_type=Text, anchor=BaseSegment, edit=TOpt(TList(BaseSegment)),
                    source=TList(BaseSegment))
LintResult = ref_class("sqlfluff.core.rules.base:LintResult", fixes=TList(LintFix))


# ------------------------------------------------------------------ specification vocabulary
@spec
def raw_tiled(raw):
    """the raw slices tile the source in order, starting at 0 (established by TemplatedFile.__init__, C07)"""
    return (len(raw) > 0 and raw[0].source_idx == 0
            and all(raw[k].source_idx + len(raw[k].raw) == raw[k + 1].source_idx for k in range(len(raw) - 1))
            and all(raw[k].source_idx + len(raw[k].raw) <= raw[m].source_idx for k in range(len(raw)) for m in range(k + 1, len(raw))))


@spec(uninterpreted=True)
def maps(tf: TemplatedFile, ts: SLICE) -> BOOL:
    """the templated range ts has a source image (templated_slice_to_source_slice does not raise)"""
    try:
        tf.templated_slice_to_source_slice(ts)
        return True
    except (IndexError, ValueError):
        return False


@spec(uninterpreted=True)
def src_range(tf: TemplatedFile, ts: SLICE) -> SLICE:
    """the source image of the templated range ts"""
    return tf.templated_slice_to_source_slice(ts)


@spec
def in_span(raw, k, a, b):
    """raw[k] is one of `the raw slices spanning the source range [a, b)`: the slice the range starts in, and every
    later slice that starts before the range stops"""
    return (a < raw[len(raw) - 1].source_idx + len(raw[len(raw) - 1].raw)
            and (((k == 0 or raw[k].source_idx <= a) and (k + 1 == len(raw) or raw[k + 1].source_idx > a))
                 or (a < raw[k].source_idx and raw[k].source_idx < b)))


@spec
def overlaps(raw, k, a, b):
    """the raw slice k shares at least one character with the source range [a, b); for an empty range: the point a
    lies strictly inside the slice"""
    return ((raw[k].source_idx < b if a < b else raw[k].source_idx < a) and a < raw[k].source_idx + len(raw[k].raw))


# ------------------------------------------------------------------ the templated -> source mapping (assumed: C07)
@external("sqlfluff.core.templaters.base:TemplatedFile.templated_slice_to_source_slice", PROP)
class templated_slice_to_source_slice:
    """ASSUMED: a deterministic partial function of the file and the range; raises IndexError / ValueError exactly
    where it is undefined; no effect."""
    types = {"self": TemplatedFile, "template_slice": SLICE}
    ret = SLICE
    raises = {"ValueError": lambda self, template_slice: not maps(self, template_slice),
              "IndexError": lambda self, template_slice: not maps(self, template_slice)}

    def ensures(self, template_slice, result):
        return result == src_range(self, template_slice)


# ------------------------------------------------------------------ LintFix._raw_slices_from_templated_slices
@contract("sqlfluff.core.rules.fix:LintFix._raw_slices_from_templated_slices", PROP)
class raw_slices_from_templated_slices:
    types = {"templated_file": TemplatedFile, "templated_slices": TList(SLICE), "file_end_slice": TOpt(RawFileSlice),
             "raw_slices": TSet(RawFileSlice)}
    ret = TSet(RawFileSlice)

    def requires(templated_file, templated_slices, file_end_slice):
        return raw_tiled(templated_file.raw_sliced)

    def ensures(templated_file, templated_slices, file_end_slice, result):
        raw = templated_file.raw_sliced
        return (
            # every slice spanning the source image of one of the ranges is returned
            all(all(implies(maps(templated_file, templated_slices[j])
                            and in_span(raw, k, src_range(templated_file, templated_slices[j]).start,
                                        src_range(templated_file, templated_slices[j]).stop),
                            raw[k] in result)
                    for k in range(len(raw))) for j in range(len(templated_slices)))
            # and nothing else, except the caller's placeholder when some range has no image
            and all(any(maps(templated_file, templated_slices[j])
                        and any(in_span(raw, k, src_range(templated_file, templated_slices[j]).start,
                                        src_range(templated_file, templated_slices[j]).stop) and x == raw[k]
                                for k in range(len(raw)))
                        for j in range(len(templated_slices)))
                    or (file_end_slice is not None and x == file_end_slice
                        and any(not maps(templated_file, templated_slices[j]) for j in range(len(templated_slices))))
                    for x in result))

    def inv_1(templated_file, templated_slices, file_end_slice, raw_slices, _i):
        raw = templated_file.raw_sliced
        return (all(all(implies(maps(templated_file, templated_slices[j])
                                and in_span(raw, k, src_range(templated_file, templated_slices[j]).start,
                                            src_range(templated_file, templated_slices[j]).stop),
                                raw[k] in raw_slices)
                        for k in range(len(raw))) for j in range(0, _i))
                and all(any(maps(templated_file, templated_slices[j])
                            and any(in_span(raw, k, src_range(templated_file, templated_slices[j]).start,
                                            src_range(templated_file, templated_slices[j]).stop) and x == raw[k]
                                    for k in range(len(raw)))
                            for j in range(0, _i))
                        or (file_end_slice is not None and x == file_end_slice
                            and any(not maps(templated_file, templated_slices[j]) for j in range(0, _i)))
                        for x in raw_slices))


# ------------------------------------------------------------------ LintFix.get_fix_slices
@spec(uninterpreted=True)
def seg_is(seg: BaseSegment, t: Text) -> BOOL:
    """the segment's class carries type t"""
    return seg.is_type(t)


@external("sqlfluff.core.parser.segments.base:BaseSegment.is_type", PROP)
class is_type:
    """ASSUMED: a pure function of the segment's class and the type name"""
    types = {"self": BaseSegment, "seg_type": Text}
    ret = BOOL
    functional = True

    def ensures(self, seg_type, result):
        return result == seg_is(self, seg_type)


@spec
def fix_ok(f):
    """what LintFix.__init__ and its callers guarantee: a known edit type; `replace` carries an edit list -- and (see
    TRUSTED) a NON-EMPTY one when the anchor has source length"""
    return (f.edit_type in ("create_before", "create_after", "replace", "delete")
            and implies(f.edit_type == "replace", f.edit is not None)
            and (True if f.anchor.pos_marker is None or f.edit is None else
                 implies(f.edit_type == "replace"
                         and f.anchor.pos_marker.source_slice.stop != f.anchor.pos_marker.source_slice.start,
                         len(f.edit) > 0)))


@spec
def window(f, within_only):
    """the templated range a fix touches: the anchor for delete / replace; for an insertion the two characters around
    the insertion point (only the inner one when within_only)"""
    a = f.anchor.pos_marker.templated_slice
    return (slice(a.start - 1, a.start + (0 if within_only else 1)) if f.edit_type == "create_before"
            else (slice(a.stop - (0 if within_only else 1), a.stop + 1) if f.edit_type == "create_after" else a))


@spec
def zero_src_replace(f):
    """documented exception: replacing something that has no extent in the source"""
    return (f.edit_type == "replace"
            and f.anchor.pos_marker.source_slice.stop == f.anchor.pos_marker.source_slice.start)


@spec
def pure_source_only(f):
    """documented exception: every edit segment is a raw segment that carries explicit source fixes"""
    return (f.edit_type == "replace" and not zero_src_replace(f)
            and all(seg_is(f.edit[i], "raw") for i in range(len(f.edit)))
            and all(f.edit[i]._source_fixes is not None and len(f.edit[i]._source_fixes) > 0 for i in range(len(f.edit))))


@spec
def spans_exactly(res, raw, a, b):
    """res is exactly the set of raw slices spanning the source range [a, b)"""
    return (all(implies(in_span(raw, k, a, b), raw[k] in res) for k in range(len(raw)))
            and all(any(in_span(raw, k, a, b) and x == raw[k] for k in range(len(raw))) for x in res))


@contract("sqlfluff.core.rules.fix:LintFix.get_fix_slices", PROP)
class get_fix_slices:
    types = {"self": LintFix, "templated_file": TemplatedFile, "within_only": BOOL, "templated_slices": TList(SLICE),
             "source_edit_slices": TList(SLICE)}
    ret = TSet(RawFileSlice)
    raises = {"AssertionError": lambda self, templated_file, within_only: self.anchor.pos_marker is None,
              "NotImplementedError": None}

    def requires(self, templated_file, within_only):
        return raw_tiled(templated_file.raw_sliced) and fix_ok(self)

    def ensures(self, templated_file, within_only, result):
        raw = templated_file.raw_sliced
        w = window(self, within_only)
        return (all(False for x in result) if zero_src_replace(self) else
                (spans_exactly(result, raw, self.edit[0]._source_fixes[0].source_slice.start,
                               self.edit[0]._source_fixes[0].source_slice.stop) if pure_source_only(self) else
                 ((spans_exactly(result, raw, src_range(templated_file, w).start, src_range(templated_file, w).stop))
                  if maps(templated_file, w) else True)))   # no source image (insertion at the very start / end of the file): nothing claimed


# ------------------------------------------------------------------ LintFix.has_template_conflicts
@spec
def explicit_source_edit(f):
    """the property's own exception (source-level edits of template tags, e.g. Jinja padding): a replace by ONE
    segment with the same text that carries explicit source fixes"""
    return (f.edit_type == "replace" and f.edit is not None and len(f.edit) == 1
            and f.edit[0].raw == f.anchor.raw and len(f.edit[0].source_fixes) > 0)


@spec
def must_conflict(f, tf):
    """the fix reaches into a rendered template expression (raw slice of type "templated"):
    * insertion: no side of the insertion point is literal code (every raw slice spanning the two characters around
      it is a template expression) -- an insertion at a boundary with literal code on one side is the documented exception;
    * delete / replace: some template expression shares a character with the source image of the anchor
      (documented exceptions: an anchor without extent in the source; a pure source-only replace, which is judged
      by exactly the raw slices spanning the source range it names)"""
    raw = tf.raw_sliced
    w = window(f, False)
    return (not explicit_source_edit(f)
            and ((maps(tf, w)
                  and all(implies(in_span(raw, k, src_range(tf, w).start, src_range(tf, w).stop), raw[k].slice_type == "templated")
                          for k in range(len(raw))))
                 if f.edit_type in ("create_before", "create_after") else
                 (False if zero_src_replace(f) else
                  (any(in_span(raw, k, f.edit[0]._source_fixes[0].source_slice.start, f.edit[0]._source_fixes[0].source_slice.stop)
                       and raw[k].slice_type == "templated" for k in range(len(raw)))
                   if pure_source_only(f) else
                   (maps(tf, w) and any(overlaps(raw, k, src_range(tf, w).start, src_range(tf, w).stop)
                                        and raw[k].slice_type == "templated" for k in range(len(raw))))))))


@spec
def straddles_template_code(f, tf):
    """a delete / replace (outside the documented exceptions) whose anchor TEXT STRADDLES template code that is not a
    rendered expression: some slice of the file that is neither literal nor "templated" (a block tag {% if %} /
    {% else %} / {% endfor %}, a template comment), has extent in the source, renders to nothing and sits strictly
    inside the anchor's templated range (tags merely adjacent to the anchor are not touched).
    NOT a clause of any contract: has_template_conflicts does not treat such slices as conflicts (it only looks for
    "templated"); that is weaker defence in depth, not a violation of C10 (the patch filter skips such patches), and
    is only reported as an OBSERVATION by the bounded checks (contracts/c10_bounded.py)"""
    a = f.anchor.pos_marker.templated_slice
    sf = tf.sliced_file
    return (f.edit_type in ("delete", "replace") and not explicit_source_edit(f) and not zero_src_replace(f)
            and not pure_source_only(f)
            and any(sf[e].slice_type != "literal" and sf[e].slice_type != "templated"
                    and sf[e].source_slice.start < sf[e].source_slice.stop
                    and a.start < sf[e].templated_slice.start and sf[e].templated_slice.stop < a.stop
                    for e in range(len(sf))))


@contract("sqlfluff.core.rules.fix:LintFix.has_template_conflicts", PROP)
class has_template_conflicts:
    types = {"self": LintFix, "templated_file": TemplatedFile, "fix_slices": TSet(RawFileSlice), "raw_slices": TSet(RawFileSlice),
             "templated_slices": TList(SLICE)}
    ret = BOOL
    raises = {"AssertionError": lambda self, templated_file: self.anchor.pos_marker is None and not explicit_source_edit(self),
              "NotImplementedError": None}

    def requires(self, templated_file):
        return (raw_tiled(templated_file.raw_sliced) and fix_ok(self)
                and all(self.source[i].pos_marker is not None for i in range(len(self.source))))

    def ensures(self, templated_file, result):
        return implies(must_conflict(self, templated_file), result)


# ------------------------------------------------------------------ BaseRule.discard_unsafe_fixes
@spec
def fixes_ok(fx, tf):
    """what the rules / LintFix.__init__ guarantee for every fix of a result (see fix_ok), and C07 for the file"""
    return (raw_tiled(tf.raw_sliced)
            and all(fix_ok(fx[i]) and all(fx[i].source[j].pos_marker is not None for j in range(len(fx[i].source)))
                    for i in range(len(fx))))


@contract("sqlfluff.core.rules.base:BaseRule.discard_unsafe_fixes#conflict-loop", PROP)
class discard_unsafe_fixes_conflict_loop:
    """region: from the guard to the end of the loop over has_template_conflicts (the block-index loop that follows
    can only empty the fixes as well -- it is checked on real lint runs, see the bounded part)"""
    region = ("if not lint_result.fixes or not templated_file:", "block_indices: set[int] = set()")
    region_params = ["lint_result", "templated_file"]
    types = {"lint_result": LintResult, "templated_file": TOpt(TemplatedFile)}
    modifies = ["lint_result.fixes"]
    raises = {"AssertionError": None, "NotImplementedError": None}

    def requires(lint_result, templated_file):
        return True if templated_file is None else fixes_ok(lint_result.fixes, templated_file)

    def ensures(lint_result, templated_file, old):
        fx = old.lint_result.fixes
        return (
            # a result without a templated file is not touched
            implies(templated_file is None, lint_result.fixes == fx)
            # ONE conflicting fix leaves the result without any fix
            and (True if templated_file is None else
                 implies(any(must_conflict(fx[i], templated_file) for i in range(len(fx))), len(lint_result.fixes) == 0))
            # all or nothing: never a proper subset of the fixes
            and (lint_result.fixes == fx or len(lint_result.fixes) == 0))

    def inv_1(lint_result, templated_file, old, _i, _iter):
        return (templated_file is not None and _iter == old.lint_result.fixes and lint_result.fixes == old.lint_result.fixes
                and all(not must_conflict(_iter[k], templated_file) for k in range(0, _i)))


# ------------------------------------------------------------------ native builders (bounded search on the real code)
_PENDING_TF = []      # the file of the fix built last: the next TemplatedFile drawn for the same call is that file


def _build_file(rng):
    """a small templated file: a random tiling of the source into raw slices of every type; literal slices are copied
    to the output, "templated" ones render to 0-3 characters, block tags / comments render to nothing"""
    from sqlfluff.core.templaters.base import TemplatedFile as TF, TemplatedFileSlice as TFS, RawFileSlice as RFS
    n = rng.randint(1, 9)
    src = "".join(rng.choice("ab \n") for _ in range(n))
    cuts = sorted({0, n, *[rng.randint(0, n) for _ in range(rng.randint(0, 4))]})
    raws, tfs, tpl, blk = [], [], "", 0
    for a, b in zip(cuts, cuts[1:]):
        typ = rng.choice(["literal", "literal", "literal", "templated", "templated", "comment", "block_start", "block_mid", "block_end"])
        blk += 1 if typ == "block_start" else 0
        raws.append(RFS(src[a:b], typ, a, blk))
        blk += 1 if typ == "block_end" else 0
        if typ == "literal":
            tfs.append(TFS("literal", slice(a, b), slice(len(tpl), len(tpl) + b - a)))
            tpl += src[a:b]
        elif typ == "templated":
            out = "".join(rng.choice("xy ") for _ in range(rng.randint(0, 3)))
            tfs.append(TFS("templated", slice(a, b), slice(len(tpl), len(tpl) + len(out))))
            tpl += out
        else:
            tfs.append(TFS(typ, slice(a, b), slice(len(tpl), len(tpl))))
    return TF(source_str=src, fname="<c10>", templated_str=tpl, sliced_file=tfs, raw_sliced=raws)


def _seg_at(rng, tf, raw=None):
    """a raw segment positioned somewhere in the rendered file, with the source position the real mapping gives"""
    from sqlfluff.core.parser import RawSegment, PositionMarker
    n = len(tf.templated_str)
    a = rng.randint(0, n)
    b = min(n, a + rng.choice([0, 1, 1, 2, 3, 5]))
    try:
        ss = tf.templated_slice_to_source_slice(slice(a, b))
    except (IndexError, ValueError):
        ss = slice(0, 0)
    if rng.random() < 0.1:
        ss = slice(ss.start, ss.start)
    return RawSegment(raw if raw is not None else (tf.templated_str[a:b] or "s"), PositionMarker(ss, slice(a, b), tf))


def _build_fix(rng, gen, tf=None):
    from sqlfluff.core.parser import RawSegment, SourceFix
    from sqlfluff.core.rules.fix import LintFix as LF
    tf = tf or _build_file(rng)
    _PENDING_TF[:] = [tf]
    anchor = _seg_at(rng, tf)
    kind = rng.choice(["delete", "delete", "replace", "replace", "replace", "create_before", "create_after"])
    source = [_seg_at(rng, tf)] if rng.random() < 0.25 else None
    if kind == "delete":
        return LF(kind, anchor, None, source)

    def new_seg(k):
        fixes = None
        if rng.random() < 0.3:
            a = rng.randint(0, len(tf.source_str))
            fixes = [SourceFix("z", slice(a, min(len(tf.source_str), a + rng.choice([0, 1, 2, 4]))), anchor.pos_marker.templated_slice)
                     for _ in range(rng.choice([1, 1, 1, 2]))]
        same = kind == "replace" and k == 0 and rng.random() < 0.4
        return RawSegment(anchor.raw if same else rng.choice(["n", "nn", " "]), None, source_fixes=fixes)
    edit = [new_seg(k) for k in range(rng.choice([1, 1, 1, 2]) if kind != "replace" else rng.choice([0, 1, 1, 1, 2]))]
    try:
        return LF(kind, anchor, edit, source)
    except AssertionError:
        return LF("delete", anchor, None, source)


def _build_tf_for_fix(rng, gen):
    if _PENDING_TF and rng.random() < 0.9:
        return _PENDING_TF.pop()
    _PENDING_TF[:] = []
    return _build_file(rng)


_replay.BUILDERS["LintFix"] = _build_fix
_TF_BUILDER_BEFORE = _replay.BUILDERS.get("TemplatedFile")


def _build_tf_shared(rng, gen):
    """TemplatedFile arguments: the file of the fix drawn just before (same call), otherwise the shared builder"""
    if _PENDING_TF:
        return _build_tf_for_fix(rng, gen)
    return _TF_BUILDER_BEFORE(rng, gen) if _TF_BUILDER_BEFORE is not None else _build_file(rng)


_replay.BUILDERS["TemplatedFile"] = _build_tf_shared


TRUSTED = [
    "FIRST LINE: TemplatedFile.templated_slice_to_source_slice is an ASSUMED deterministic partial function of (file, templated range) "
    "(`maps` / `src_range`, raising IndexError / ValueError exactly where undefined): `touches` is stated relative to it (source maps: C07)",
    "FIRST LINE: BaseSegment.is_type is an assumed pure function of the segment and the type name; a segment with is_type('raw') is a "
    "RawSegment (has `_source_fixes`); BaseSegment.source_fixes (a property) is modelled as a field, unrelated to `_source_fixes`",
    "FIRST LINE: precondition fix_ok of every fix (what LintFix.__init__ and the rules guarantee): a known edit_type, `replace` carries an "
    "edit list, and a `replace` whose anchor has source length carries a NON-EMPTY one -- for an empty list get_fix_slices raises "
    "IndexError (all() of an empty sequence selects the source-only branch, then source_edit_slices[0]); CV07 built such a fix, repaired in /repo",
    "FIRST LINE: the raw slices tile the source (raw_tiled: TemplatedFile.__init__, C07); every `source` segment of a fix has a position "
    "marker (LintFix.__init__ filters on it)",
]
NOT_COVERED = [
    "FIRST LINE: the block-index loop of discard_unsafe_fixes (fixes spanning several template blocks; iteration over a set and len(set) "
    "are outside pyvc): only BOUNDED (real lint runs + built results, contracts/c10_bounded.py); the proved region shows that loop "
    "runs only on results without a conflicting fix, and it can only drop ALL fixes",
    "FIRST LINE: the `source` field test of has_template_conflicts (copying text out of templated areas) is executed symbolically (no "
    "crash, callee preconditions) but carries no clause: it does not edit template code",
    "FIRST LINE: rules declaring template_safe_fixes (LT02, LT05: reflow) skip discard_unsafe_fixes by design; for them only the patch "
    "filter (proved) and the bounded end-to-end check apply",
    "FIRST LINE: block tags / template comments strictly inside a fix's anchor are not treated as conflicts by has_template_conflicts "
    "(only `templated` slices are); block_start / block_end are dropped by the block-index loop, comments and mid-block tags are not: "
    "reported as an OBSERVATION (bounded), not a clause -- template code stays unchanged because the patch filter (proved) skips the "
    "patch; the bounded real-run check states the end-to-end clause for exactly these inputs",
]
MUTANTS = [
    ("fix_within_only_dropped", "sqlfluff/core/rules/fix.py", "adjust_boundary = 1 if not within_only else 0", "adjust_boundary = 1"),
    ("fix_create_after_uses_start", "sqlfluff/core/rules/fix.py", "slice(anchor_slice.stop - adjust_boundary, anchor_slice.stop + 1),", "slice(anchor_slice.start - adjust_boundary, anchor_slice.start + 1),"),
    ("fix_zero_len_replace_any_length", "sqlfluff/core/rules/fix.py", "            and self.anchor.pos_marker.source_slice.stop\n            == self.anchor.pos_marker.source_slice.start", "            and self.anchor.pos_marker.source_slice.stop\n            >= self.anchor.pos_marker.source_slice.start"),
    ("fix_conflict_all_any_swapped", "sqlfluff/core/rules/fix.py", 'check_fn = all if self.edit_type in ("create_before", "create_after") else any', 'check_fn = any if self.edit_type in ("create_before", "create_after") else all'),
    ("fix_conflict_literal_test_inverted", "sqlfluff/core/rules/fix.py", 'result = check_fn(fs.slice_type == "templated" for fs in fix_slices)', 'result = check_fn(fs.slice_type == "literal" for fs in fix_slices)'),
    ("fix_source_edit_exemption_ignores_raw", "sqlfluff/core/rules/fix.py", "if edit.raw == self.anchor.raw and edit.source_fixes:", "if edit.source_fixes:"),
    ("fix_conflict_uses_within_only", "sqlfluff/core/rules/fix.py", "fix_slices = self.get_fix_slices(templated_file, within_only=False)", "fix_slices = self.get_fix_slices(templated_file, within_only=True)"),
    ("fix_raw_slices_unmapped_range", "sqlfluff/core/rules/fix.py", "                        templated_file.templated_slice_to_source_slice(templated_slice)\n", "                        templated_slice\n"),
    ("fix_raw_slices_first_range_only", "sqlfluff/core/rules/fix.py", "        for templated_slice in templated_slices:\n            try:", "        for templated_slice in templated_slices[:1]:\n            try:"),
    ("discard_keeps_other_fixes", "sqlfluff/core/rules/base.py", "                lint_result.fixes = []\n                return\n\n        # Issue 3079", "                lint_result.fixes = [f for f in lint_result.fixes if f is not fix]\n                return\n\n        # Issue 3079"),
    ("discard_checks_first_fix_only", "sqlfluff/core/rules/base.py", "        for fix in lint_result.fixes:\n            if fix.has_template_conflicts(templated_file):", "        for fix in lint_result.fixes[:1]:\n            if fix.has_template_conflicts(templated_file):"),
    ("discard_conflict_test_negated", "sqlfluff/core/rules/base.py", "            if fix.has_template_conflicts(templated_file):", "            if not fix.has_template_conflicts(templated_file):"),
    ("discard_call_removed", "sqlfluff/core/rules/base.py", "        if not self.template_safe_fixes:\n            self.discard_unsafe_fixes(res, templated_file)\n", "        if not self.template_safe_fixes:\n            pass\n"),
]
