"""C20, textual front end and mask construction -- helper module of contracts/c20.py (imported at its end).

Functions under contract, in their real source:
   sqlfluff.core.rules.noqa:    IgnoreMask._parse_noqa                      (pyvc: whole function, both loops)
                                IgnoreMask._extract_ignore_from_comment     (pyvc)
                                IgnoreMask.from_tree / from_source / from_source_with_dialect   (pyvc)
   sqlfluff.core.linter.linter: Linter.lint_fix_parsed#noqa-mask            (pyvc region contract: mask of a parsed file)
                                Linter.lint_parsed#noqa-fallback            (pyvc region contract: files without a parse tree)
                                Linter.allowed_rule_ref_map                 (native_only executable contract: bounded)

Vocabulary.  The directive grammar (docs/source/configuration/ignoring_configuration.rst) is the spec functions directive_text ..
rules_spec / parsed_entry below, written over five text primitives (fields, trim, before_first, after_first, matching) that
are uninterpreted in the proofs and independently implemented for the native runs.  The result of parsing one comment is
carried through the callers as two atoms per level: tkind / text_entry (a comment TEXT), ckind / seg_entry (a comment SEGMENT);
their definitions are @assumed statements used only where the parse happens.  A mask is then: one directive per noqa comment
(segment / source line) in file order, each an `entry` of its comment at the comment's position (tree_mask / source_mask).
"""
from pyvc.dsl import contract, external, spec, assumed, implies, ref_class
from pyvc.ty import INT, BOOL, StrN, TList, TTuple, TOpt, TDict, TSet
from pyvc import exec as _X

from .c20 import NoQaDirective, SQLBaseError, Code

PROP = "C20"

RefMap = TDict(StrN, TSet(StrN))       # rule reference map: reference (code, name, group, alias) -> set of rule codes


# ================================================================== text primitives
# Uninterpreted in the symbolic reading (the proof is about the case analysis of the directive grammar, relative to these
# primitives); their native reading is an independent implementation (no str.split / str.strip / fnmatch.filter), so that
# the native runs also check the assumed contracts of the library methods below.
@spec(uninterpreted=True)
def fields(s: StrN, sep: StrN) -> TList(StrN):
    """the sep-separated fields of s, scanned left to right (non-overlapping separators)"""
    out, cur, i = [], "", 0
    while i < len(s):
        if sep and s[i:i + len(sep)] == sep:
            out.append(cur)
            cur = ""
            i += len(sep)
        else:
            cur += s[i]
            i += 1
    out.append(cur)
    return out


@spec(uninterpreted=True)
def trim(s: StrN) -> StrN:
    """s without leading and trailing white space"""
    a, b = 0, len(s)
    while a < b and s[a].isspace():
        a += 1
    while b > a and s[b - 1].isspace():
        b -= 1
    return s[a:b]


@spec(uninterpreted=True)
def before_first(s: StrN, sep: StrN) -> StrN:
    """the text before the first occurrence of sep (sep occurs in s)"""
    return s[:s.find(sep)]


@spec(uninterpreted=True)
def after_first(s: StrN, sep: StrN) -> StrN:
    """the text after the first occurrence of sep (sep occurs in s)"""
    return s[s.find(sep) + len(sep):]


@spec(uninterpreted=True)
def matching(names: TSet(StrN), pat: StrN) -> TList(StrN):
    """the names that match the glob pattern pat (shell-style wildcards, case sensitive), each once"""
    import fnmatch
    return [k for k in names if fnmatch.fnmatchcase(k, pat)]


@external("str.split")
class str_split:
    types = {"self": StrN, "sep": StrN, "maxsplit": INT}
    ret = TList(StrN)
    functional = True

    def ensures(self, sep, maxsplit=-1, result=None):
        c1 = len(result) >= 1
        c2 = implies(maxsplit == -1, result == fields(self, sep))
        c3 = implies(maxsplit == 1 and sep in self,
                     len(result) == 2 and result[0] == before_first(self, sep) and result[1] == after_first(self, sep))
        return c1 and c2 and c3


@external("str.strip")
class str_strip:
    types = {"self": StrN}
    ret = StrN
    functional = True

    def ensures(self, result):
        return result == trim(self)


@external("fnmatch:filter")
class fnmatch_filter:
    types = {"names": TSet(StrN), "pat": StrN}
    ret = TList(StrN)
    functional = True

    def ensures(names, pat, result):
        return result == matching(names, pat) and all(result[i] in names for i in range(len(result)))


# ================================================================== what a comment parses to (abstract view)
# The result of _parse_noqa / _extract_ignore_from_comment is a NoQaDirective, an SQLParseError or None.  It is typed as an
# optional reference to `object`; kind_of gives its dynamic class, as_dir / as_err view it at that class (identity).
Obj = ref_class("builtins:object", segment=TOpt(ref_class("sqlfluff.core.parser.segments.raw:RawSegment")))
SQLParseError = ref_class("sqlfluff.core.errors:SQLParseError", base="SQLBaseError")
Entry = TOpt(Obj)


@spec(uninterpreted=True)
def kind_of(e: Obj) -> INT:
    """dynamic class of a parse result: 1 = NoQaDirective, 2 = SQLParseError, 0 = anything else"""
    from sqlfluff.core.errors import SQLParseError as _E
    from sqlfluff.core.rules.noqa import NoQaDirective as _D
    return 1 if isinstance(e, _D) else (2 if isinstance(e, _E) else 0)


@spec
def as_obj(e: Obj):
    return e


@spec
def as_dir(e: NoQaDirective):
    return e


@spec
def as_err(e: SQLBaseError):
    return e


@spec
def some_list(xs: TList(Code)):
    """an Optional list known not to be None"""
    return xs


def _isinstance_obj(ex, st, v, cls):
    from sqlfluff.core.errors import SQLParseError as _E
    from sqlfluff.core.rules.noqa import NoQaDirective as _D
    k = ex.apply_spec(st, kind_of, [v], {}).z
    if cls is _E:
        return k == 2
    if cls is _D:
        return k == 1
    raise _X.Unsupported(f"isinstance(<parse result>, {cls.__name__})")


_X.ISINSTANCE_HOOK["object"] = _isinstance_obj


@external("sqlfluff.core.rules.noqa:NoQaDirective", PROP)
class new_directive:
    """dataclass constructor.  Its precondition IS the abstract view of `action` used by every C20 contract
    (None | 'enable' | 'disable'): proved at the one construction site, in _parse_noqa."""
    types = {"self": NoQaDirective, "line_no": INT, "line_pos": INT, "rules": TOpt(TList(Code)), "action": TOpt(StrN),
             "raw_str": StrN, "used": BOOL}

    def requires(self, line_no, line_pos, rules, action, raw_str="", used=False):
        return action is None or action == "enable" or action == "disable"

    def ensures(self, line_no, line_pos, rules, action, raw_str="", used=False):
        return (self.line_no == line_no and self.line_pos == line_pos and self.rules == rules and self.used == used
                and (self.action is None) == (action is None) and (self.action == "enable") == (action == "enable")
                and (self.action == "disable") == (action == "disable") and kind_of(self) == 1)


@external("sqlfluff.core.errors:SQLParseError.__init__", PROP)
class new_parse_error:
    types = {"self": SQLParseError, "description": TOpt(StrN), "segment": TOpt(Obj), "line_no": INT, "line_pos": INT,
             "ignore": BOOL, "fatal": BOOL, "warning": TOpt(BOOL)}

    def ensures(self, description=None, segment=None, line_no=0, line_pos=0, ignore=False, fatal=False, warning=None):
        return implies(segment is None, self.line_no == line_no and self.line_pos == line_pos) and kind_of(self) == 2


# ================================================================== the directive grammar (docs: ignoring_configuration.rst)
#     -- noqa                                   every rule, this line
#     -- noqa: <ref>[,<ref>...]                 the referenced rules, this line
#     -- noqa: disable=<ref>[,...] | all        from this line on        -- noqa: enable=<ref>[,...] | all
# "Comment lines can also have noqa" (`--some text -- noqa: LT05`): the directive is the text after the last `--`.
# A reference is a code, name, group or alias (a key of the reference map) or a glob over the keys; it stands for the
# rule codes of every key it matches; a reference that matches no key stands for itself (PRS / TMP / LXR).
@spec
def directive_text(comment):
    """the text after the last `--` of the comment, trimmed"""
    fs = fields(comment, "--")
    return trim(fs[len(fs) - 1])


@spec
def is_noqa(t):
    return len(t) >= 4 and t[0:4] == "noqa"


@spec
def after_word(t):
    """the text after the word `noqa`"""
    return t[4:]


@spec
def body_of(t):
    """the trimmed text after `noqa:`"""
    return trim(after_word(t)[1:])


@spec
def bare(t):
    """`noqa` or `noqa:` with nothing after it: every rule"""
    return len(t) == 4 or len(body_of(t)) == 0


@spec
def malformed(t):
    """starts with `noqa` but is not one of the documented forms"""
    b = body_of(t)
    return (len(t) > 4 and after_word(t)[0:1] != ":") or (
        len(t) > 4 and len(b) > 0 and ((before_first(b, "=") != "enable" and before_first(b, "=") != "disable") if "=" in b
                                        else (b == "enable" or b == "disable")))


@spec
def kind_spec(t):
    """0: not a directive, 1: a directive, 2: malformed"""
    return 0 if not is_noqa(t) else (2 if malformed(t) else 1)


@spec
def has_action(t):
    """`noqa: enable=...` / `noqa: disable=...`"""
    return not bare(t) and "=" in body_of(t)


@spec
def action_text(t):
    return before_first(body_of(t), "=")


@spec
def rule_text(t):
    b = body_of(t)
    return after_first(b, "=") if "=" in b else b


@spec
def all_rules(t):
    return bare(t) or rule_text(t) == "all"


@spec(recursive=True)
def union_upto(m: RefMap, r: StrN, n: INT) -> TSet(StrN):
    """union of the code sets of the first n keys that match reference r"""
    return set() if n <= 0 else union_upto(m, r, n - 1) | m[matching(m.keys(), r)[n - 1]]


@spec(recursive=True)
def expand_one(m: RefMap, r: StrN) -> TSet(StrN):
    """what one reference stands for"""
    return union_upto(m, r, len(matching(m.keys(), r))) if len(matching(m.keys(), r)) > 0 else {r}


@spec(recursive=True)
def expand_upto(m: RefMap, rt: StrN, n: INT) -> TSet(StrN):
    """what the first n comma-separated references of rt stand for"""
    return set() if n <= 0 else expand_upto(m, rt, n - 1) | expand_one(m, trim(fields(rt, ",")[n - 1]))


@spec
def rules_spec(m, t):
    """the set of rule codes the directive names (when it does not name all)"""
    return expand_upto(m, rule_text(t), len(fields(rule_text(t), ",")))


@spec
def parsed_entry(e, text, line_no, line_pos, m):
    """the (non-None) parse result e is what the directive grammar makes of the comment text `text` found at (line_no, line_pos):
    a malformed-directive error on that line, or a directive with that position, action and rule set"""
    t = directive_text(text)
    k = kind_spec(t)
    c1 = implies(k == 2, kind_of(e) == 2 and as_err(e).line_no == line_no)
    d = as_dir(e)
    isd = k == 1 and kind_of(e) == 1
    c2 = implies(k == 1, kind_of(e) == 1 and d.line_no == line_no and d.line_pos == line_pos and not d.used)
    c3 = ((d.action is None) == (not has_action(t)) and (d.action == "enable") == (has_action(t) and action_text(t) == "enable")
          and (d.action == "disable") == (has_action(t) and action_text(t) == "disable")) if isd else True
    c4 = ((d.rules is None) == all_rules(t)) if isd else True
    c5 = (list(some_list(d.rules)) == sorted(rules_spec(m, t))) if (isd and not all_rules(t) and d.rules is not None) else True
    return k != 0 and c1 and c2 and c3 and c4 and c5


# The two symbols below are what the callers of _parse_noqa see (atoms: no text reasoning is needed to carry them through the
# loops of from_tree / from_source).  Their definitions -- the grammar above -- are the @assumed statements tkind_def /
# text_entry_def, used (uses_axioms) only where the parse is actually done, in _parse_noqa; natively each symbol IS its definition.
@spec(uninterpreted=True)
def tkind(text: StrN) -> INT:
    """what a comment text is: 0 no directive, 1 a noqa directive, 2 a malformed one"""
    return kind_spec(directive_text(text))


@spec(uninterpreted=True)
def text_entry(e: Obj, text: StrN, line_no: INT, line_pos: INT, m: RefMap) -> BOOL:
    """e is what the comment text stands for at that position under reference map m (see parsed_entry)"""
    return parsed_entry(e, text, line_no, line_pos, m)


@assumed(props=(PROP,))
def tkind_def(text: StrN) -> BOOL:
    return tkind(text) == kind_spec(directive_text(text))


@assumed(props=(PROP,))
def text_entry_def(e: Obj, text: StrN, line_no: INT, line_pos: INT, m: RefMap) -> BOOL:
    return text_entry(e, text, line_no, line_pos, m) == parsed_entry(e, text, line_no, line_pos, m)


@spec
def parse_result(result, text, line_no, line_pos, m):
    """result (a NoQaDirective, an SQLParseError or None) is the parse of the comment text"""
    c0 = (result is None) == (tkind(text) == 0) and 0 <= tkind(text) <= 2
    c1 = (kind_of(as_obj(result)) == tkind(text) and text_entry(as_obj(result), text, line_no, line_pos, m)) if result is not None else True
    return c0 and c1


@contract("sqlfluff.core.rules.noqa:IgnoreMask._parse_noqa", PROP)
class parse_noqa:
    types = {"comment": StrN, "line_no": INT, "line_pos": INT, "reference_map": RefMap,
             "comment_remainder": StrN, "action": TOpt(StrN), "rule_part": StrN, "rules": TOpt(TList(Code)),
             "expanded_rules": TSet(StrN), "matched": BOOL}
    ret = Entry
    uses_axioms = [tkind_def, text_entry_def]
    opts = {"alphabet": "noqa:=, -*LT1eblsd", "max_len": 14, "refute_free_native_str": True, "timeout_ms": 10000, "max_unknown": 3}

    def ensures(comment, line_no, line_pos, reference_map, result):
        return parse_result(result, comment, line_no, line_pos, reference_map)

    def inv_1(reference_map, rule_part, expanded_rules, _i):
        return expanded_rules == expand_upto(reference_map, rule_part, _i)

    def inv_2(reference_map, rule_part, expanded_rules, matched, r, _i, _i1):
        return (expanded_rules == expand_upto(reference_map, rule_part, _i1) | union_upto(reference_map, r, _i)
                and matched == (_i > 0))


# ================================================================== comment segment -> parse result
from sqlfluff.core.rules.noqa import IgnoreMask as _IgnoreMaskCls  # noqa: E402  (value of the `cls` parameter)
from .c20 import IgnoreMask  # noqa: E402

PositionMarker = ref_class("sqlfluff.core.parser.markers:PositionMarker")
RawSegment = ref_class("sqlfluff.core.parser.segments.raw:RawSegment", pos_marker=PositionMarker)


@spec(uninterpreted=True)
def ltrim(s: StrN) -> StrN:
    """s without leading white space"""
    a = 0
    while a < len(s) and s[a].isspace():
        a += 1
    return s[a:]


@spec(uninterpreted=True)
def rtrim(s: StrN) -> StrN:
    """s without trailing white space"""
    b = len(s)
    while b > 0 and s[b - 1].isspace():
        b -= 1
    return s[:b]


@external("str.lstrip")
class str_lstrip:
    types = {"self": StrN}
    ret = StrN
    functional = True

    def ensures(self, result):
        return result == ltrim(self)


@external("str.rstrip")
class str_rstrip:
    types = {"self": StrN}
    ret = StrN
    functional = True

    def ensures(self, result):
        return result == rtrim(self)


@spec(uninterpreted=True)
def seg_text(c: RawSegment) -> StrN:
    """the text of a comment segment without its inline-comment marker (RawSegment.raw_trimmed: `--` / `#` removed)"""
    return c.raw_trimmed()


@spec(uninterpreted=True)
def pm_line(p: PositionMarker) -> INT:
    """source line of a position marker (C31: get_line_pos_of_char_pos)"""
    return p.source_position()[0]


@spec(uninterpreted=True)
def pm_pos(p: PositionMarker) -> INT:
    return p.source_position()[1]


@external("sqlfluff.core.parser.segments.raw:RawSegment.raw_trimmed", PROP)
class raw_trimmed:
    types = {"self": RawSegment}
    ret = StrN
    functional = True

    def ensures(self, result):
        return result == seg_text(self)


@external("sqlfluff.core.parser.markers:PositionMarker.source_position", PROP)
class source_position:
    types = {"self": PositionMarker}
    ret = TTuple(INT, INT)
    functional = True

    def ensures(self, result):
        return result == (pm_line(self), pm_pos(self))


@spec
def comment_content(c0):
    """comment text (already trimmed) without block comment markers: `/* noqa: disable=all */` is a directive"""
    c1 = rtrim(c0[:-2]) if c0.endswith("*/") else c0
    return ltrim(c1[2:]) if c1.startswith("/*") else c1


# segment-level atoms (definitions: ckind_def / seg_entry_def, used only in _extract_ignore_from_comment)
@spec(uninterpreted=True)
def ckind(c: RawSegment) -> INT:
    """what the text of comment segment c is: 0 no directive, 1 a noqa directive, 2 a malformed one"""
    return tkind(comment_content(trim(seg_text(c))))


@spec(uninterpreted=True)
def seg_entry(e: Obj, c: RawSegment, m: RefMap) -> BOOL:
    """e is what comment segment c stands for, at c's source position"""
    return text_entry(e, comment_content(trim(seg_text(c))), pm_line(c.pos_marker), pm_pos(c.pos_marker), m)


@assumed(props=(PROP,))
def ckind_def(c: RawSegment) -> BOOL:
    return ckind(c) == tkind(comment_content(trim(seg_text(c))))


@assumed(props=(PROP,))
def seg_entry_def(e: Obj, c: RawSegment, m: RefMap) -> BOOL:
    return seg_entry(e, c, m) == text_entry(e, comment_content(trim(seg_text(c))), pm_line(c.pos_marker), pm_pos(c.pos_marker), m)


@contract("sqlfluff.core.rules.noqa:IgnoreMask._extract_ignore_from_comment", PROP)
class extract_ignore_from_comment:
    types = {"cls": _IgnoreMaskCls, "comment": RawSegment, "reference_map": RefMap, "comment_content": StrN,
             "comment_line": INT, "comment_pos": INT}
    ret = Entry
    modifies = ["heap:object.segment"]
    uses_axioms = [ckind_def, seg_entry_def]
    opts = {"refute_free_native_str": True, "timeout_ms": 10000, "max_unknown": 3}

    def ensures(comment, reference_map, result):
        c0 = (result is None) == (ckind(comment) == 0) and 0 <= ckind(comment) <= 2
        c1 = (kind_of(as_obj(result)) == ckind(comment) and seg_entry(as_obj(result), comment, reference_map)) if result is not None else True
        return c0 and c1


# ================================================================== all comments of a file -> mask  (from_tree)
BaseSegment = ref_class("sqlfluff.core.parser.segments.base:BaseSegment")


@spec(uninterpreted=True)
def comments_of(tree: BaseSegment) -> TList(RawSegment):
    """the comment segments of the parse tree, in file order (BaseSegment.recursive_crawl is a pre-order walk)"""
    return list(tree.recursive_crawl("comment"))


@spec(uninterpreted=True)
def is_sql_comment(c: RawSegment) -> BOOL:
    """an inline (`-- ...`, `# ...`) or block (`/* ... */`) comment"""
    return c.is_type("inline_comment", "block_comment")


@external("sqlfluff.core.parser.segments.base:BaseSegment.recursive_crawl", PROP)
class recursive_crawl:
    types = {"self": BaseSegment, "seg_type": StrN}
    ret = TList(RawSegment)
    functional = True

    def requires(self, seg_type):
        return seg_type == "comment"

    def ensures(self, seg_type, result):
        return result == comments_of(self)


@external("sqlfluff.core.parser.segments.base:BaseSegment.is_type", PROP)
class is_type:
    types = {"self": RawSegment, "t1": StrN, "t2": StrN}
    ret = BOOL
    functional = True

    def requires(self, t1, t2):
        return t1 == "inline_comment" and t2 == "block_comment"

    def ensures(self, t1, t2, result):
        return result == is_sql_comment(self)


@external("sqlfluff.core.rules.noqa:IgnoreMask.__init__", PROP)
class new_mask:
    types = {"self": IgnoreMask, "ignores": TList(NoQaDirective)}

    def ensures(self, ignores):
        return self._ignore_list == ignores


@spec
def seg_kind(c):
    """what the comment segment c is: 0 no directive, 1 a noqa directive, 2 a malformed one"""
    return ckind(c) if is_sql_comment(c) else 0


@spec(recursive=True)
def seg_count(tree: BaseSegment, k: INT, n: INT) -> INT:
    """number of comments of kind k among the first n comments of the tree"""
    return 0 if n <= 0 else seg_count(tree, k, n - 1) + (1 if seg_kind(comments_of(tree)[n - 1]) == k else 0)


@spec
def tree_mask(ds, es, tree, m, n):
    """(ds, es) are the directives and the malformed-directive errors of the first n comments of the tree: one directive per
    noqa comment, in file order, each at the position of its comment (seg_entry); one error per malformed one"""
    cs = comments_of(tree)
    c1 = len(ds) == seg_count(tree, 1, n) and len(es) == seg_count(tree, 2, n)
    c2 = all((0 <= seg_count(tree, 1, i) < len(ds) and kind_of(ds[seg_count(tree, 1, i)]) == 1
              and seg_entry(ds[seg_count(tree, 1, i)], cs[i], m)) if seg_kind(cs[i]) == 1 else True for i in range(0, n))
    c3 = all((0 <= seg_count(tree, 2, i) < len(es) and kind_of(es[seg_count(tree, 2, i)]) == 2
              and seg_entry(es[seg_count(tree, 2, i)], cs[i], m)) if seg_kind(cs[i]) == 2 else True for i in range(0, n))
    return c1 and c2 and c3


@contract("sqlfluff.core.rules.noqa:IgnoreMask.from_tree", PROP)
class from_tree:
    types = {"cls": _IgnoreMaskCls, "tree": BaseSegment, "reference_map": RefMap, "ignore_buff": TList(NoQaDirective),
             "violations": TList(SQLBaseError), "ignore_entry": Entry}
    ret = TTuple(IgnoreMask, TList(SQLBaseError))
    modifies = ["heap:object.segment"]
    opts = {"timeout_ms": 10000, "max_unknown": 3}

    def ensures(tree, reference_map, result):
        return tree_mask(result[0]._ignore_list, result[1], tree, reference_map, len(comments_of(tree)))

    def inv_1(tree, reference_map, ignore_buff, violations, _i):
        return tree_mask(ignore_buff, violations, tree, reference_map, _i)


# ================================================================== raw source -> mask  (from_source: files without a parse tree)
RegexLexer = ref_class("sqlfluff.core.parser.lexer:RegexLexer")
Span = TOpt(TTuple(INT, INT))


@spec(uninterpreted=True)
def span_of(rx: RegexLexer, line: StrN) -> Span:
    """where the inline comment of a source line is (None: the line has none)"""
    return rx.search(line)


@external("sqlfluff.core.parser.lexer:RegexLexer.search", PROP)
class regex_search:
    types = {"self": RegexLexer, "forward_string": StrN}
    ret = Span
    functional = True

    def ensures(self, forward_string, result):
        return result == span_of(self, forward_string)


@spec
def has_comment(rx, line):
    return len(line) > 0 and span_of(rx, line) is not None


@spec
def comment_start(rx, line):
    return some_span(span_of(rx, line))[0]


@spec
def comment_text(rx, line):
    """the inline comment of the line"""
    return line[some_span(span_of(rx, line))[0]:some_span(span_of(rx, line))[1]]


@spec
def some_span(sp: TTuple(INT, INT)):
    return sp


@spec
def line_kind(rx, line):
    """what the source line carries: 0 no directive, 1 a noqa directive, 2 a malformed one"""
    return tkind(comment_text(rx, line)) if has_comment(rx, line) else 0


@spec(recursive=True)
def line_count(source: StrN, rx: RegexLexer, k: INT, n: INT) -> INT:
    """number of lines of kind k among the first n lines of the source (lines are separated by LF, as for violations: C31)"""
    return 0 if n <= 0 else line_count(source, rx, k, n - 1) + (1 if line_kind(rx, fields(source, "\n")[n - 1]) == k else 0)


@spec
def source_mask(ds, es, source, rx, m, n):
    """(ds, es) are the directives and the malformed-directive errors of the first n lines of the source: one directive per
    line with a noqa comment, in file order, with line number = 1 + number of LF before it"""
    ls = fields(source, "\n")
    c1 = len(ds) == line_count(source, rx, 1, n) and len(es) == line_count(source, rx, 2, n)
    c2 = all((0 <= line_count(source, rx, 1, i) < len(ds) and kind_of(ds[line_count(source, rx, 1, i)]) == 1
              and text_entry(ds[line_count(source, rx, 1, i)], comment_text(rx, ls[i]), i + 1, comment_start(rx, ls[i]), m))
             if line_kind(rx, ls[i]) == 1 else True for i in range(0, n))
    c3 = all((0 <= line_count(source, rx, 2, i) < len(es) and kind_of(es[line_count(source, rx, 2, i)]) == 2
              and text_entry(es[line_count(source, rx, 2, i)], comment_text(rx, ls[i]), i + 1, comment_start(rx, ls[i]), m))
             if line_kind(rx, ls[i]) == 2 else True for i in range(0, n))
    return c1 and c2 and c3


@contract("sqlfluff.core.rules.noqa:IgnoreMask.from_source", PROP)
class from_source:
    types = {"cls": _IgnoreMaskCls, "source": StrN, "inline_comment_regex": RegexLexer, "reference_map": RefMap,
             "ignore_buff": TList(NoQaDirective), "violations": TList(SQLBaseError), "ignore_entry": Entry, "match": Span}
    ret = TTuple(IgnoreMask, TList(SQLBaseError))
    opts = {"timeout_ms": 10000, "max_unknown": 3}

    def ensures(source, inline_comment_regex, reference_map, result):
        return source_mask(result[0]._ignore_list, result[1], source, inline_comment_regex, reference_map, len(fields(source, "\n")))

    def inv_1(source, inline_comment_regex, reference_map, ignore_buff, violations, _i):
        return source_mask(ignore_buff, violations, source, inline_comment_regex, reference_map, _i)


StringLexer = ref_class("sqlfluff.core.parser.lexer:StringLexer", name=StrN)
ref_class("sqlfluff.core.parser.lexer:RegexLexer", base="StringLexer")
Dialect = ref_class("sqlfluff.core.dialects.base:Dialect", lexer_matchers=TList(StringLexer))


@spec
def as_regex(x: RegexLexer):
    return x


@contract("sqlfluff.core.rules.noqa:IgnoreMask.from_source_with_dialect", PROP)
class from_source_with_dialect:
    types = {"cls": _IgnoreMaskCls, "source": StrN, "dialect": Dialect, "reference_map": RefMap,
             "inline_comment_regex": TOpt(RegexLexer)}
    ret = TTuple(IgnoreMask, TList(SQLBaseError))
    opts = {"timeout_ms": 10000, "max_unknown": 3}

    def ensures(source, dialect, reference_map, result):
        ms = dialect.lexer_matchers
        # without an inline-comment matcher in the dialect: no directives; otherwise the source mask under the FIRST such matcher
        c1 = implies(all(ms[i].name != "inline_comment" for i in range(len(ms))), len(result[0]._ignore_list) == 0 and len(result[1]) == 0)
        c2 = all(implies(ms[j].name == "inline_comment" and all(ms[i].name != "inline_comment" for i in range(0, j)),
                         source_mask(result[0]._ignore_list, result[1], source, as_regex(ms[j]), reference_map, len(fields(source, "\n"))))
                 for j in range(len(ms)))
        return c1 and c2


# ================================================================== which map, and whether a mask at all (Linter)
from sqlfluff.core.linter.linter import Linter as _LinterCls  # noqa: E402  (value of the `cls` parameter)
from pyvc.ty import SINK  # noqa: E402
from pyvc.dsl import rec_class  # noqa: E402

FluffConfig = ref_class("sqlfluff.core.config.fluffconfig:FluffConfig")
RulePack = ref_class("sqlfluff.core.rules.base:RulePack", reference_map=RefMap)
CfgVal = TOpt(Obj)      # a configuration value: None for every falsy value (None, False, "", 0), else an opaque object


@spec(uninterpreted=True)
def cfg_val(cfg: FluffConfig, key: StrN) -> CfgVal:
    """the value of a config key in the `core` section, falsy values identified with None (config objects are not written here)"""
    return cfg.get(key) or None


@external("sqlfluff.core.config.fluffconfig:FluffConfig.get", PROP)
class config_get:
    types = {"self": FluffConfig, "val": StrN, "section": StrN}
    ret = CfgVal

    def ensures(self, val, section="core", default=None, result=None):
        return result == cfg_val(self, val)


@spec(uninterpreted=True)
def allowed_map(m: RefMap, exc: CfgVal) -> RefMap:
    """the reference map noqa comments are read with.  Without `disable_noqa_except`: m itself.  With it: only the listed
    rules stay referencable -- every reference of m (and PRS / LXR / TMP) keeps exactly those of its codes that some listed
    reference (comma separated; code, name, group, alias or glob) stands for"""
    import fnmatch
    if not exc:
        return m
    full = {**m, "PRS": {"PRS"}, "LXR": {"LXR"}, "TMP": {"TMP"}}
    listed = set()
    for ref in exc.split(","):
        for k in full:
            if fnmatch.fnmatchcase(k, ref.strip()):
                listed |= full[k]
    return {k: {c for c in v if c in listed} for k, v in full.items()}


@contract("sqlfluff.core.linter.linter:Linter.allowed_rule_ref_map", PROP)
class allowed_rule_ref_map:
    """dict comprehension / dict(...) copy / dict stores are outside the symbolic subset: the executable contract is run
    natively on the real function (bounded, labelled so); its text is what the two call sites use."""
    types = {"cls": _LinterCls, "reference_map": RefMap, "disable_noqa_except": CfgVal}
    ret = RefMap
    opts = {"native_only": True, "alphabet": "AB1", "max_len": 2}

    def ensures(reference_map, disable_noqa_except, result, old):
        c1 = result == allowed_map(old.reference_map, disable_noqa_except)
        # the caller's map (it belongs to the rule pack, which reads the comments of every variant of the file, and of later
        # files, with it) is left as it was: a reference or glob of a later noqa comment expands as it would have before
        c2 = reference_map == old.reference_map
        return c1 and c2


def _build_except(rng, gen):
    return rng.choice(["A", "A*", "B?", "*", "A,B1", " A , ZZ", "PRS", "P*", "[AB]1", "1", "AB,LXR", "??"])


from pyvc import replay as _replay  # noqa: E402

_replay.BUILDERS["object"] = _build_except


@spec
def noqa_off(config):
    """noqa processing is turned off altogether: disable_noqa is set and there is no disable_noqa_except"""
    return cfg_val(config, "disable_noqa") is not None and cfg_val(config, "disable_noqa_except") is None


@contract("sqlfluff.core.linter.linter:Linter.lint_fix_parsed#noqa-mask", PROP)
class lint_fix_parsed_mask:
    """the statements of lint_fix_parsed that build the ignore mask of a parsed file"""
    region = ('disable_noqa_except: Optional[str] = config.get("disable_noqa_except")', "save_tree = tree")
    region_params = ["cls", "tree", "config", "rule_pack", "initial_linting_errors"]
    types = {"cls": _LinterCls, "tree": BaseSegment, "config": FluffConfig, "rule_pack": RulePack,
             "initial_linting_errors": TList(SQLBaseError), "disable_noqa_except": CfgVal, "allowed_rules_ref_map": RefMap,
             "ignore_mask": TOpt(IgnoreMask), "ivs": TList(SQLBaseError)}
    ghost_out = {"ignore_mask": TOpt(IgnoreMask), "ivs": TList(SQLBaseError), "errs": ("initial_linting_errors", TList(SQLBaseError))}
    modifies = ["heap:object.segment"]
    opts = {"timeout_ms": 10000, "max_unknown": 3}

    def ensures(tree, config, rule_pack, initial_linting_errors, ignore_mask, ivs, errs, old):
        m = allowed_map(old.rule_pack.reference_map, cfg_val(config, "disable_noqa_except"))
        # turning noqa processing off hides nothing: no mask at all, and no noqa parse errors either
        c1 = implies(noqa_off(config), ignore_mask is None and errs == old.initial_linting_errors)
        # otherwise: the mask holds exactly the directives of the comments of the tree, read with the allowed references
        c2 = (tree_mask(ignore_mask._ignore_list, ivs, tree, m, len(comments_of(tree)))
              and errs == old.initial_linting_errors + ivs) if (not noqa_off(config) and ignore_mask is not None) else True
        c3 = implies(not noqa_off(config), ignore_mask is not None)
        return c1 and c2 and c3


ParsedString = rec_class("sqlfluff.core.linter.common:ParsedString", parsed_variants=SINK, templating_violations=SINK, time_dict=SINK,
                         config=FluffConfig, fname=SINK, source_str=StrN)


@contract("sqlfluff.core.linter.linter:Linter.lint_parsed#noqa-fallback", PROP)
class lint_parsed_fallback:
    """the branch of lint_parsed for files without a parse tree (fatal templating failure): the mask comes from the raw source"""
    region = ("rule_timings = []", None)
    region_params = ["cls", "parsed", "rule_pack", "violations"]
    types = {"cls": _LinterCls, "parsed": ParsedString, "rule_pack": RulePack, "violations": TList(SQLBaseError),
             "disable_noqa_except": CfgVal, "allowed_rules_ref_map": RefMap, "ignore_mask": TOpt(IgnoreMask),
             "ignore_violations": TList(SQLBaseError), "rule_timings": SINK}
    ghost_out = {"ignore_mask": TOpt(IgnoreMask), "ignore_violations": TList(SQLBaseError), "errs": ("violations", TList(SQLBaseError))}
    opts = {"timeout_ms": 10000, "max_unknown": 3}

    def ensures(parsed, rule_pack, violations, ignore_mask, ignore_violations, errs, old):
        m = allowed_map(old.rule_pack.reference_map, cfg_val(parsed.config, "disable_noqa_except"))
        ms = as_dialect(cfg_val(parsed.config, "dialect_obj")).lexer_matchers
        c1 = implies(noqa_off(parsed.config), ignore_mask is None and errs == old.violations)
        c3 = implies(not noqa_off(parsed.config), ignore_mask is not None)
        # the same statement as from_source_with_dialect's, with the allowed references
        c2 = (all(implies(ms[j].name == "inline_comment" and all(ms[i].name != "inline_comment" for i in range(0, j)),
                          source_mask(ignore_mask._ignore_list, ignore_violations, parsed.source_str, as_regex(ms[j]), m,
                                      len(fields(parsed.source_str, "\n"))))
                  for j in range(len(ms)))
              and errs == old.violations + ignore_violations) if (not noqa_off(parsed.config) and ignore_mask is not None) else True
        return c1 and c2 and c3


@spec
def as_dialect(d: Dialect):
    return d


# ================================================================== bounded companions (labelled; not proofs)
def _failed(ident, function, detail):
    return {"name": ident, "id": ident, "kind": "bounded", "status": "failed", "function": function,
            "backend": "CPython (bounded enumeration)", "detail": detail, "reproduced": True}


# ------------------------------------------------------------------ native builders (real objects)
_POOL = {}
COMMENT_TEXTS = ["-- noqa", "-- noqa: LT01", "--noqa:disable=all", "-- noqa: enable=LT01,AL01", "/* noqa: disable=layout */", "/*noqa*/",
                 "-- plain comment", "-- text -- noqa: L*", "-- noqa?", "-- noqa: disable", "/* just text */", "-- noqa: PRS, ZZ99", "# noqa: LT01",
                 "-- noqa:", "/* noqa: foo=bar */", "--- noqa"]


def _lexer():
    if "lexer" not in _POOL:
        from sqlfluff.core import FluffConfig
        from sqlfluff.core.parser import Lexer
        cfg = FluffConfig(overrides={"dialect": "ansi"})
        _POOL["cfg"] = cfg
        _POOL["lexer"] = Lexer(config=cfg)
    return _POOL["lexer"]


def make_tree(sql):
    """the token sequence of the real lexer under one root segment (what from_tree crawls; comments are leaves of any parse tree)"""
    from sqlfluff.core.parser import BaseSegment as _BS
    if "root" not in _POOL:
        _POOL["root"] = type("_Root", (_BS,), {"type": "file", "can_start_end_non_code": True, "allow_empty": True})
    toks, _ = _lexer().lex(sql)
    return _POOL["root"](toks)


def _random_sql(rng):
    lines = []
    for _ in range(rng.randint(0, 4)):
        code = rng.choice(["SELECT 1", "FROM t", "", "  , a", "WHERE x"])
        cm = rng.choice(COMMENT_TEXTS) if rng.random() < 0.7 else ""
        if cm.startswith("#"):
            cm = "-- " + cm
        lines.append((code + " " + cm).rstrip() if rng.random() < 0.8 else cm)
    return "\n".join(lines) + ("\n" if rng.random() < 0.5 else "")


def _build_tree(rng, gen):
    return make_tree(_random_sql(rng))


def _build_comment_segment(rng, gen):
    tree = make_tree("SELECT 1 " + rng.choice([c for c in COMMENT_TEXTS if not c.startswith("#")]) + "\n")
    cs = list(tree.recursive_crawl("comment"))
    return cs[0] if cs else list(make_tree("SELECT 1 -- noqa\n").recursive_crawl("comment"))[0]


def _inline_comment_matcher(name="ansi"):
    from sqlfluff.core.dialects import dialect_selector
    return next(m for m in dialect_selector(name).lexer_matchers if m.name == "inline_comment")


def _build_dialect(rng, gen):
    from types import SimpleNamespace
    from sqlfluff.core.dialects import dialect_selector
    d = dialect_selector(rng.choice(["ansi", "mysql", "tsql"]))
    r = rng.random()
    if r < 0.25:      # a dialect without an inline comment matcher
        return SimpleNamespace(lexer_matchers=[m for m in d.lexer_matchers if m.name != "inline_comment"])
    if r < 0.4:       # two of them: the first one counts
        other = _inline_comment_matcher("mysql")
        return SimpleNamespace(lexer_matchers=[m for m in d.lexer_matchers[:3]] + [other] + list(d.lexer_matchers))
    return d


def _build_refmap(rng):
    from . import c20 as _m
    return {k: set(v) for k, v in _m.SMALL_MAP.items()} if rng.random() < 0.8 else {}


_replay.BUILDERS["BaseSegment"] = _build_tree
_replay.BUILDERS["RawSegment"] = _build_comment_segment
_replay.BUILDERS["RegexLexer"] = lambda rng, gen: _inline_comment_matcher(rng.choice(["ansi", "mysql"]))
_replay.BUILDERS["Dialect"] = _build_dialect


def _native_sweep(ident, key, cases, nontrivial_of, name, bound):
    from pyvc.dsl import CONTRACTS
    from pyvc.replay import NativeCheck
    nc = NativeCheck(CONTRACTS[key])
    failed, evals, nontrivial, samples = [], 0, 0, []
    for args in cases:
        verdict, detail = nc.run(args)
        evals += 1
        nontrivial += 1 if nontrivial_of(args) else 0
        if verdict not in ("ok", "pre-false") and len(failed) < 5:
            failed.append(_failed(ident, key, {"input": _replay.safe_repr({k: v for k, v in args.items() if k != "cls"})[:600],
                                               "verdict": verdict, "detail": detail}))
        elif len(samples) < 2 and nontrivial_of(args):
            samples.append({"input": _replay.safe_repr({k: v for k, v in args.items() if k not in ("cls", "reference_map")})[:300], "verdict": verdict})
    return {"name": name, "bound": bound, "rule": "requires/ensures of the proved contract, evaluated by CPython on the real function",
            "evaluations": evals, "distinct_nontrivial": nontrivial, "samples": samples, "failed": failed}


def bounded_parse_contract(tier, seed):
    """The contract of _parse_noqa (the very text that is proved) evaluated natively on the real function over the
    documented directive grammar: every directive text of contracts/c20.py's enumeration x comment prefixes, on a small
    synthetic reference map.  Ties the uninterpreted text primitives of the proof (fields / trim / before_first /
    after_first / matching) to their executable meaning."""
    from . import c20 as _m
    key = "sqlfluff.core.rules.noqa:IgnoreMask._parse_noqa"
    bodies = list(dict.fromkeys(_m._directive_bodies(tier)))
    prefixes = ["", "-- ", "some text -- ", "-- a -- b --", "--- ", "x--y -- "] if tier == "thorough" else ["", "some text -- ", "-- a -- b --", "--- "]
    refmap = {k: set(v) for k, v in _m.SMALL_MAP.items()}
    cases = ({"comment": pre + b, "line_no": 3, "line_pos": 7, "reference_map": refmap} for b in bodies for pre in prefixes)
    return _native_sweep("C20/front-end/parse_noqa-contract", key, cases, lambda a: kind_spec(directive_text(a["comment"])) != 0,
                         "_parse_noqa: executable contract on the directive grammar", f"{len(bodies)} directive texts x {len(prefixes)} prefixes")


def bounded_mask_builders(tier, seed):
    """The contracts of _extract_ignore_from_comment / from_tree / from_source / from_source_with_dialect evaluated natively on
    the real functions: comment segments and token trees from the real lexer, raw sources, real dialect matchers."""
    import random
    from . import c20 as _m
    rng = random.Random(seed)
    refmap = {k: set(v) for k, v in _m.SMALL_MAP.items()}
    out = []
    # comment segments: every pool comment x inline / block form
    segs = []
    for c in COMMENT_TEXTS + ["-- " + b for b in _m.MALFORMED] + ["/* " + b + " */" for b in ("noqa: LT01 ", "noqa:disable=all", "noqa: enable = all", "x -- noqa")]:
        if c.startswith("#"):
            continue
        for sql in ("SELECT 1 " + c + "\n", "SELECT 1\n\n  " + c + "\nFROM t\n"):
            segs.extend(x for x in make_tree(sql).recursive_crawl("comment"))
    out.append(_native_sweep("C20/front-end/extract-contract", "sqlfluff.core.rules.noqa:IgnoreMask._extract_ignore_from_comment",
                             ({"cls": _IgnoreMaskCls, "comment": sg, "reference_map": refmap} for sg in segs),
                             lambda a: ckind(a["comment"]) != 0, "_extract_ignore_from_comment", f"{len(segs)} comment segments"))
    n = 1500 if tier == "thorough" else 250
    sqls = [_random_sql(rng) for _ in range(n)] + ["", "\n", "-- noqa", "SELECT 1 /* noqa: disable=all */ -- noqa: enable=all\n-- noqa?\n"]
    out.append(_native_sweep("C20/front-end/from_tree-contract", "sqlfluff.core.rules.noqa:IgnoreMask.from_tree",
                             ({"cls": _IgnoreMaskCls, "tree": make_tree(q), "reference_map": refmap} for q in sqls),
                             lambda a: seg_count(a["tree"], 1, len(comments_of(a["tree"]))) + seg_count(a["tree"], 2, len(comments_of(a["tree"]))) > 0,
                             "from_tree", f"{len(sqls)} token trees"))
    seps = ["\x0b", "\x0c", "\x1c", "\x1d", "\x1e", "\x85", "\u2028", "\u2029", "\r"]
    srcs = sqls + [q.replace(" ", rng.choice(seps), 1) for q in sqls[: n // 2]] + ["a" + sp + "b -- c\nx -- noqa: LT01" + sp + "\n-- noqa: disable=all" for sp in seps]
    rx = _inline_comment_matcher()
    out.append(_native_sweep("C20/front-end/from_source-contract", "sqlfluff.core.rules.noqa:IgnoreMask.from_source",
                             ({"cls": _IgnoreMaskCls, "source": q, "inline_comment_regex": rx, "reference_map": refmap} for q in srcs),
                             lambda a: "noqa" in a["source"], "from_source", f"{len(srcs)} raw sources (incl. every non-LF line boundary character)"))
    out.append(_native_sweep("C20/front-end/from_source_with_dialect-contract", "sqlfluff.core.rules.noqa:IgnoreMask.from_source_with_dialect",
                             ({"cls": _IgnoreMaskCls, "source": q, "dialect": _build_dialect(rng, None), "reference_map": refmap} for q in srcs[: n]),
                             lambda a: "noqa" in a["source"], "from_source_with_dialect", f"{min(n, len(srcs))} raw sources x real / stub dialects"))
    res = {"name": "mask construction: executable contracts on real lexer output", "bound": "; ".join(f"{o['name']}: {o['bound']}" for o in out),
           "rule": out[0]["rule"], "evaluations": sum(o["evaluations"] for o in out), "distinct_nontrivial": sum(o["distinct_nontrivial"] for o in out),
           "samples": [x for o in out for x in o["samples"]][:4], "failed": [f for o in out for f in o["failed"]]}
    return res


def bounded_allowed_map(tier, seed):
    """Linter.allowed_rule_ref_map's executable contract on the REAL reference map of the bundled rules and on small synthetic
    maps, for reference lists with codes, names, groups, aliases, globs, special codes and unknown references -- also on a map
    object that an earlier call has already been given."""
    import copy
    from sqlfluff.core import FluffConfig, Linter
    from . import c20 as _m
    key = "sqlfluff.core.linter.linter:Linter.allowed_rule_ref_map"
    real = Linter(config=FluffConfig(overrides={"dialect": "ansi"})).get_rulepack().reference_map
    excs = [None, "", "LT01", "LT01,AL01", "layout", "layout.spacing", "L003", "LT*", "L0*", "capitalisation.*, AL0[12]", "PRS", "P*", "TMP,LT01",
            "nope", "core", "all", " LT01 , nope ", "*"]
    cases = []
    for base in (real, _m.SMALL_MAP, {}):
        for e in excs:
            m = {k: set(v) for k, v in base.items()}
            cases.append({"cls": _LinterCls, "reference_map": m, "disable_noqa_except": e})
            m2 = {k: set(v) for k, v in base.items()}
            _LinterCls.allowed_rule_ref_map(m2, "LT0*,PRS")  # a map an earlier call (another variant / file) has already seen
            cases.append({"cls": _LinterCls, "reference_map": m2, "disable_noqa_except": e})
    return _native_sweep("C20/allowed_rule_ref_map/contract", key, cases, lambda a: bool(a["disable_noqa_except"]),
                         "allowed_rule_ref_map: executable contract", f"{len(cases)} (map, disable_noqa_except) pairs on the real, a synthetic and the empty map")


def bounded_call_sites(tier, seed):
    """The two call sites end to end (Linter.lint_string): a parsed file (lint_fix_parsed) and a file whose templating fails
    fatally (lint_parsed's source fallback), under every combination of disable_noqa / disable_noqa_except.  Oracle = the
    region contracts' reading: no mask at all iff noqa is off; otherwise the mask's directives are those of from_tree /
    from_source_with_dialect under allowed_map(reference map, disable_noqa_except); malformed directives are reported unless
    noqa is off."""
    from sqlfluff.core import FluffConfig, Linter
    files = [("lint_fix_parsed", "SELECT a  FROM tbl; -- noqa: LT01\nSELECT b  FROM tbl2; -- noqa?\nSELECT c  FROM t3; /* noqa: disable=AL*,PRS */\n"),
             ("lint_parsed (source fallback)", "SELECT {{ foo( }} FROM t -- noqa: TMP\nSELECT 1 -- noqa?\nSELECT 2 -- noqa: disable=LT01,TMP\n")]
    configs = [{}, {"disable_noqa": True}, {"disable_noqa_except": "LT01"}, {"disable_noqa": True, "disable_noqa_except": "LT01"},
               {"disable_noqa_except": "TMP"}, {"disable_noqa": True, "disable_noqa_except": "TMP,PRS"}, {"disable_noqa": True, "disable_noqa_except": "AL0*"}]
    failed, evals, nontrivial, samples = [], 0, 0, []

    def prs_lines(lf):
        return sorted(v.line_no for v in lf.violations if v.rule_code() == "PRS")
    for where, sql in files:
        # parse errors the file has of its own (none expected): the run with noqa off, where no comment is read at all
        base = prs_lines(Linter(config=FluffConfig(overrides=dict(dialect="ansi", disable_noqa=True))).lint_string(sql))
        for ov in configs:
            cfg = FluffConfig(overrides=dict(dialect="ansi", **ov))
            lf = Linter(config=cfg).lint_string(sql)
            evals += 1
            off = bool(ov.get("disable_noqa")) and not ov.get("disable_noqa_except")
            refmap = Linter(config=cfg).get_rulepack().reference_map
            m = allowed_map(refmap, ov.get("disable_noqa_except"))
            if lf.tree is not None:
                want_mask, want_errs = _IgnoreMaskCls.from_tree(lf.tree, m)
            else:
                want_mask, want_errs = _IgnoreMaskCls.from_source_with_dialect(sql, cfg.get("dialect_obj"), m)
            got = None if lf.ignore_mask is None else [(d.line_no, d.rules, d.action) for d in lf.ignore_mask._ignore_list]
            want = None if off else [(d.line_no, d.rules, d.action) for d in want_mask._ignore_list]
            malformed = prs_lines(lf)
            want_malformed = sorted(base + ([] if off else [e.line_no for e in want_errs]))
            nontrivial += 0 if not ov else 1
            if got != want or malformed != want_malformed:
                if len(failed) < 5:
                    failed.append(_failed("C20/call-sites/mask-construction", "sqlfluff.core.linter.linter:Linter.lint_parsed",
                                          {"call site": where, "sql": sql, "config": ov, "mask (line, rules, action)": repr(got), "expected": repr(want),
                                           "PRS-coded errors reported on lines": malformed, "expected (the file's own + malformed noqa)": want_malformed}))
            elif len(samples) < 2 and ov.get("disable_noqa_except"):
                samples.append({"call site": where, "config": ov, "mask": repr(got)[:300]})
    return {"name": "mask construction at the two call sites, end to end", "bound": f"{len(files)} files x {len(configs)} configurations",
            "rule": "ignore_mask is None iff (disable_noqa and not disable_noqa_except); else its directives == from_tree / from_source_with_dialect under "
                    "allowed_map(reference map, disable_noqa_except); malformed-noqa errors reported iff noqa is not off",
            "evaluations": evals, "distinct_nontrivial": nontrivial, "samples": samples, "failed": failed}


BOUNDED = [bounded_parse_contract, bounded_mask_builders, bounded_allowed_map, bounded_call_sites]


_NOQA = "sqlfluff/core/rules/noqa.py"
_LINTER = "sqlfluff/core/linter/linter.py"
MUTANTS = [
    ("parse_matched_not_reset", _NOQA, "                        for r in unexpanded_rules:\n                            matched = False\n",
     "                        matched = False\n                        for r in unexpanded_rules:\n"),
    ("parse_enable_disable_swapped", _NOQA, '                        action, rule_part = comment_remainder.split("=", 1)\n',
     '                        action, rule_part = comment_remainder.split("=", 1)\n'
     '                        action = "enable" if action == "disable" else ("disable" if action == "enable" else action)\n'),
    ("parse_rules_split_on_semicolon", _NOQA, 'r.strip() for r in rule_part.split(",")', 'r.strip() for r in rule_part.split(";")'),
    ("parse_all_not_recognised", _NOQA, '                    if rule_part != "all":\n', '                    if True:\n'),
    ("parse_first_dashes", _NOQA, 'comment = [c.strip() for c in comment.split("--")][-1]', 'comment = [c.strip() for c in comment.split("--")][0]'),
    ("parse_colon_optional", _NOQA, '                if not comment_remainder.startswith(":"):\n', '                if False:\n'),
    ("parse_line_off_by_one", _NOQA, "                    return NoQaDirective(line_no, line_pos, rules, action, comment)",
     "                    return NoQaDirective(line_no + 1, line_pos, rules, action, comment)"),
    ("parse_bare_colon_dropped", _NOQA, "            return NoQaDirective(line_no, line_pos, None, None, comment)\n", "            return None\n"),
    ("tree_errors_dropped", _NOQA, "                    violations.append(ignore_entry)\n                elif ignore_entry:\n", "                    pass\n                elif ignore_entry:\n"),
    ("tree_block_comments_skipped", _NOQA, '            if comment.is_type("inline_comment", "block_comment"):\n', '            if comment.is_type("inline_comment"):\n'),
    ("tree_directive_twice", _NOQA, "                    ignore_buff.append(ignore_entry)\n        if ignore_buff:\n            linter_logger.info(\"Parsed noqa directives from file: %r\", ignore_buff)\n        return cls(ignore_buff), violations\n\n    @classmethod\n    def from_source(",
     "                    ignore_buff.append(ignore_entry)\n                    ignore_buff.append(ignore_entry)\n        if ignore_buff:\n            linter_logger.info(\"Parsed noqa directives from file: %r\", ignore_buff)\n        return cls(ignore_buff), violations\n\n    @classmethod\n    def from_source("),
    ("extract_line_pos_swapped", _NOQA, "        comment_line, comment_pos = comment.pos_marker.source_position()\n", "        comment_pos, comment_line = comment.pos_marker.source_position()\n"),
    ("source_splitlines", _NOQA, '        for idx, line in enumerate(source.split("\\n")):\n', "        for idx, line in enumerate(source.splitlines()):\n"),
    ("source_line_zero_based", _NOQA, "                    line[match[0] : match[1]], idx + 1, match[0], reference_map\n", "                    line[match[0] : match[1]], idx, match[0], reference_map\n"),
    ("source_comment_from_line_start", _NOQA, "                    line[match[0] : match[1]], idx + 1, match[0], reference_map\n", "                    line[: match[1]], idx + 1, match[0], reference_map\n"),
    ("source_errors_as_directives", _NOQA, "                    violations.append(ignore_entry)  # pragma: no cover\n", "                    pass\n"),
    ("dialect_wrong_matcher", _NOQA, '                if matcher.name == "inline_comment"\n', '                if matcher.name == "block_comment"\n'),
    ("allowed_map_returns_full", _LINTER, "        return {k: v.intersection(noqa_set) for k, v in output_map.items()}\n", "        return output_map\n"),
    ("allowed_map_no_glob", _LINTER, "            for x in fnmatch.filter(output_map.keys(), r):\n", "            for x in [k for k in output_map if k == r]:\n"),
    ("allowed_map_specials_missing", _LINTER, "            output_map[special_rule] = {special_rule}\n", "            pass\n"),
    ("allowed_map_extends_shared_map", _LINTER, "        output_map = dict(reference_map)\n", "        output_map = reference_map\n"),
    ("mask_reads_full_map", _LINTER, "            ignore_mask, ivs = IgnoreMask.from_tree(tree, allowed_rules_ref_map)\n", "            ignore_mask, ivs = IgnoreMask.from_tree(tree, rule_pack.reference_map)\n"),
    ("mask_errors_dropped", _LINTER, "            initial_linting_errors += ivs\n", "            pass\n"),
    ("mask_off_when_except_set", _LINTER, '        if not config.get("disable_noqa") or disable_noqa_except:\n', '        if not config.get("disable_noqa"):\n'),
    ("fallback_ignores_except", _LINTER, '            if parsed.config.get("disable_noqa") and not disable_noqa_except:\n', '            if parsed.config.get("disable_noqa"):\n'),
    ("fallback_mask_when_off", _LINTER, '            if parsed.config.get("disable_noqa") and not disable_noqa_except:\n', "            if False:\n"),
    ("fallback_reads_full_map", _LINTER, "                    allowed_rules_ref_map,\n                )\n                violations += ignore_violations\n",
     "                    rule_pack.reference_map,\n                )\n                violations += ignore_violations\n"),
    ("fallback_errors_dropped", _LINTER, "                violations += ignore_violations\n", "                pass\n"),
    ("parse_first_match_only", _NOQA, "                                expanded_rules |= expanded\n                                matched = True\n",
     "                                expanded_rules |= expanded\n                                matched = True\n                                break\n"),
]

TRUSTED = [
    "library methods used by the front end, assumed (and exercised natively against independent implementations in BOUNDED "
    "parse_noqa-contract / mask builders): str.split(sep) = the sep-separated fields scanned left to right, str.split(sep, 1) on a text "
    "containing sep = (before the first sep, after it), str.strip / lstrip / rstrip = white space removed, fnmatch.filter(names, pat) = the "
    "names matching pat, each a member of names; dict.keys() as the set of keys, sorted(<set>) as a function of the set that enumerates it "
    "without repetition (the order itself is not modelled), set union (engine models)",
    "definitional @assumed statements tkind_def / text_entry_def (used in _parse_noqa only) and ckind_def / seg_entry_def (used in "
    "_extract_ignore_from_comment only): each atom IS its definition in the native reading; text_entry / seg_entry read the fields line_no, "
    "line_pos, rules, action, used of the directive -- no function under contract writes them after construction (TRUSTED of c20.py), so "
    "the atoms stay valid while they are carried through from_tree / from_source and the two call sites",
    "a parse result (NoQaDirective | SQLParseError | None) is modelled as an optional reference to `object` with a dynamic-class tag "
    "(kind_of); the tag of a new object is fixed by the assumed constructor contracts: NoQaDirective(...) stores its arguments (its "
    "precondition, action in {None, 'enable', 'disable'}, is PROVED at the one construction site) and SQLParseError(description, "
    "line_no=...) without a segment is positioned at line_no",
    "BaseSegment.recursive_crawl('comment') yields the comment segments of the tree in file order (comments_of); RawSegment.raw_trimmed, "
    "BaseSegment.is_type, PositionMarker.source_position (C31), RegexLexer.search are deterministic and effect-free",
    "FluffConfig.get: a config value is abstracted to None (every falsy value: None, False, '', 0) or an opaque object; the code under "
    "contract only tests truthiness and passes the value on; config objects are not written by the code under contract",
    "region contracts lint_fix_parsed#noqa-mask / lint_parsed#noqa-fallback: declared types of tree / config / rule_pack / parsed and of "
    "the violation lists; the lint_fix_parsed region starts AT the statement reading disable_noqa_except (the statement before it mixes "
    "config values of other types), so an edit of that very line is reported stale, not verified",
    "Linter.allowed_rule_ref_map at its two call sites: its executable contract (validated natively only)",
]
NOT_COVERED = [
    "Linter.allowed_rule_ref_map is NOT proved (dict comprehension, in-place extension of the caller's map through an alias): native_only "
    "contract + BOUNDED allowed_rule_ref_map/contract on the real reference map (incl. that the rule pack's own map is left unchanged)",
    "glob semantics (which key a pattern matches) is fnmatch's: `matching` is uninterpreted; that a code / name / group / alias given "
    "literally matches its own key is checked only natively (BOUNDED front end on the real reference map)",
    "under disable_noqa_except a bare `-- noqa` and `noqa: disable=all` still name EVERY rule (rules == None is not restricted to the "
    "listed rules): the property text does not speak about disable_noqa_except, this is recorded as an observation, not an obligation",
    "`--- noqa` is not a directive (the text after the last `--`, scanned left to right, is `- noqa`); the regex of from_source sees the "
    "comment from its first `--` / `#`; both as coded, the documented syntax does not decide them",
    "cli.commands (`parse` / `render`) builds its own mask for display with the same switch; lint_parsed / lint_fix_parsed outside the two "
    "statement ranges (C33 / C18 cover other ranges)",
]
