"""C20, textual front end and mask construction -- helper module of contracts/c20.py (imported at its end).

   sqlfluff.core.rules.noqa:   IgnoreMask._parse_noqa
"""
from pyvc.dsl import contract, external, spec, implies, ref_class
from pyvc.ty import INT, BOOL, StrN, TList, TTuple, TOpt, TDict, TSet
from pyvc import exec as _X

from .c20 import NoQaDirective, SQLBaseError, Code

PROP = "C20"

RefMap = TDict(StrN, TSet(StrN))       # rule reference map: reference (code, name, group, alias) -> set of rule codes


# ================================================================== text primitives
# Uninterpreted in the symbolic reading (the proof is about the case analysis of the directive grammar, relative to these
# primitives); their native reading is an independent implementation (no str.split / str.strip / fnmatch.filter), so that
# the native runs also check the assumed contracts of the library methods below.
@spec(uninterpreted=True)
def fields(s: StrN, sep: StrN) -> TList(StrN):
    """the sep-separated fields of s, scanned left to right (non-overlapping separators)"""
    out, cur, i = [], "", 0
    while i < len(s):
        if sep and s[i:i + len(sep)] == sep:
            out.append(cur)
            cur = ""
            i += len(sep)
        else:
            cur += s[i]
            i += 1
    out.append(cur)
    return out


@spec(uninterpreted=True)
def trim(s: StrN) -> StrN:
    """s without leading and trailing white space"""
    a, b = 0, len(s)
    while a < b and s[a].isspace():
        a += 1
    while b > a and s[b - 1].isspace():
        b -= 1
    return s[a:b]


@spec(uninterpreted=True)
def before_first(s: StrN, sep: StrN) -> StrN:
    """the text before the first occurrence of sep (sep occurs in s)"""
    return s[:s.find(sep)]


@spec(uninterpreted=True)
def after_first(s: StrN, sep: StrN) -> StrN:
    """the text after the first occurrence of sep (sep occurs in s)"""
    return s[s.find(sep) + len(sep):]


@spec(uninterpreted=True)
def matching(names: TSet(StrN), pat: StrN) -> TList(StrN):
    """the names that match the glob pattern pat (shell-style wildcards, case sensitive), each once"""
    import fnmatch
    return [k for k in names if fnmatch.fnmatchcase(k, pat)]


@external("str.split")
class str_split:
    types = {"self": StrN, "sep": StrN, "maxsplit": INT}
    ret = TList(StrN)
    functional = True

    def ensures(self, sep, maxsplit=-1, result=None):
        c1 = len(result) >= 1
        c2 = implies(maxsplit == -1, result == fields(self, sep))
        c3 = implies(maxsplit == 1 and sep in self,
                     len(result) == 2 and result[0] == before_first(self, sep) and result[1] == after_first(self, sep))
        return c1 and c2 and c3


@external("str.strip")
class str_strip:
    types = {"self": StrN}
    ret = StrN
    functional = True

    def ensures(self, result):
        return result == trim(self)


@external("fnmatch:filter")
class fnmatch_filter:
    types = {"names": TSet(StrN), "pat": StrN}
    ret = TList(StrN)
    functional = True

    def ensures(names, pat, result):
        return result == matching(names, pat) and all(result[i] in names for i in range(len(result)))


# ================================================================== what a comment parses to (abstract view)
# The result of _parse_noqa / _extract_ignore_from_comment is a NoQaDirective, an SQLParseError or None.  It is typed as an
# optional reference to `object`; kind_of gives its dynamic class, as_dir / as_err view it at that class (identity).
Obj = ref_class("builtins:object", segment=TOpt(ref_class("sqlfluff.core.parser.segments.raw:RawSegment")))
SQLParseError = ref_class("sqlfluff.core.errors:SQLParseError", base="SQLBaseError")
Entry = TOpt(Obj)


@spec(uninterpreted=True)
def kind_of(e: Obj) -> INT:
    """dynamic class of a parse result: 1 = NoQaDirective, 2 = SQLParseError, 0 = anything else"""
    from sqlfluff.core.errors import SQLParseError as _E
    from sqlfluff.core.rules.noqa import NoQaDirective as _D
    return 1 if isinstance(e, _D) else (2 if isinstance(e, _E) else 0)


@spec
def as_obj(e: Obj):
    return e


@spec
def as_dir(e: NoQaDirective):
    return e


@spec
def as_err(e: SQLBaseError):
    return e


@spec
def some_list(xs: TList(Code)):
    """an Optional list known not to be None"""
    return xs


def _isinstance_obj(ex, st, v, cls):
    from sqlfluff.core.errors import SQLParseError as _E
    from sqlfluff.core.rules.noqa import NoQaDirective as _D
    k = ex.apply_spec(st, kind_of, [v], {}).z
    if cls is _E:
        return k == 2
    if cls is _D:
        return k == 1
    raise _X.Unsupported(f"isinstance(<parse result>, {cls.__name__})")


_X.ISINSTANCE_HOOK["object"] = _isinstance_obj


@external("sqlfluff.core.rules.noqa:NoQaDirective", PROP)
class new_directive:
    """dataclass constructor.  Its precondition IS the abstract view of `action` used by every C20 contract
    (None | 'enable' | 'disable'): proved at the one construction site, in _parse_noqa."""
    types = {"self": NoQaDirective, "line_no": INT, "line_pos": INT, "rules": TOpt(TList(Code)), "action": TOpt(StrN),
             "raw_str": StrN, "used": BOOL}

    def requires(self, line_no, line_pos, rules, action, raw_str="", used=False):
        return action is None or action == "enable" or action == "disable"

    def ensures(self, line_no, line_pos, rules, action, raw_str="", used=False):
        return (self.line_no == line_no and self.line_pos == line_pos and self.rules == rules and self.used == used
                and (self.action is None) == (action is None) and (self.action == "enable") == (action == "enable")
                and (self.action == "disable") == (action == "disable") and kind_of(self) == 1)


@external("sqlfluff.core.errors:SQLParseError.__init__", PROP)
class new_parse_error:
    types = {"self": SQLParseError, "description": TOpt(StrN), "segment": TOpt(Obj), "line_no": INT, "line_pos": INT,
             "ignore": BOOL, "fatal": BOOL, "warning": TOpt(BOOL)}

    def ensures(self, description=None, segment=None, line_no=0, line_pos=0, ignore=False, fatal=False, warning=None):
        return implies(segment is None, self.line_no == line_no and self.line_pos == line_pos) and kind_of(self) == 2


# ================================================================== the directive grammar (docs: ignoring_configuration.rst)
#     -- noqa                                   every rule, this line
#     -- noqa: <ref>[,<ref>...]                 the referenced rules, this line
#     -- noqa: disable=<ref>[,...] | all        from this line on        -- noqa: enable=<ref>[,...] | all
# "Comment lines can also have noqa" (`--some text -- noqa: LT05`): the directive is the text after the last `--`.
# A reference is a code, name, group or alias (a key of the reference map) or a glob over the keys; it stands for the
# rule codes of every key it matches; a reference that matches no key stands for itself (PRS / TMP / LXR).
@spec
def directive_text(comment):
    """the text after the last `--` of the comment, trimmed"""
    fs = fields(comment, "--")
    return trim(fs[len(fs) - 1])


@spec
def is_noqa(t):
    return len(t) >= 4 and t[0:4] == "noqa"


@spec
def after_word(t):
    """the text after the word `noqa`"""
    return t[4:]


@spec
def body_of(t):
    """the trimmed text after `noqa:`"""
    return trim(after_word(t)[1:])


@spec
def bare(t):
    """`noqa` or `noqa:` with nothing after it: every rule"""
    return len(t) == 4 or len(body_of(t)) == 0


@spec
def malformed(t):
    """starts with `noqa` but is not one of the documented forms"""
    b = body_of(t)
    return (len(t) > 4 and after_word(t)[0:1] != ":") or (
        len(t) > 4 and len(b) > 0 and ((before_first(b, "=") != "enable" and before_first(b, "=") != "disable") if "=" in b
                                        else (b == "enable" or b == "disable")))


@spec
def kind_spec(t):
    """0: not a directive, 1: a directive, 2: malformed"""
    return 0 if not is_noqa(t) else (2 if malformed(t) else 1)


@spec
def has_action(t):
    """`noqa: enable=...` / `noqa: disable=...`"""
    return not bare(t) and "=" in body_of(t)


@spec
def action_text(t):
    return before_first(body_of(t), "=")


@spec
def rule_text(t):
    b = body_of(t)
    return after_first(b, "=") if "=" in b else b


@spec
def all_rules(t):
    return bare(t) or rule_text(t) == "all"


@spec(recursive=True)
def union_upto(m: RefMap, r: StrN, n: INT) -> TSet(StrN):
    """union of the code sets of the first n keys that match reference r"""
    return set() if n <= 0 else union_upto(m, r, n - 1) | m[matching(m.keys(), r)[n - 1]]


@spec(recursive=True)
def expand_one(m: RefMap, r: StrN) -> TSet(StrN):
    """what one reference stands for"""
    return union_upto(m, r, len(matching(m.keys(), r))) if len(matching(m.keys(), r)) > 0 else {r}


@spec(recursive=True)
def expand_upto(m: RefMap, rt: StrN, n: INT) -> TSet(StrN):
    """what the first n comma-separated references of rt stand for"""
    return set() if n <= 0 else expand_upto(m, rt, n - 1) | expand_one(m, trim(fields(rt, ",")[n - 1]))


@spec
def rules_spec(m, t):
    """the set of rule codes the directive names (when it does not name all)"""
    return expand_upto(m, rule_text(t), len(fields(rule_text(t), ",")))


@contract("sqlfluff.core.rules.noqa:IgnoreMask._parse_noqa", PROP)
class parse_noqa:
    types = {"comment": StrN, "line_no": INT, "line_pos": INT, "reference_map": RefMap,
             "comment_remainder": StrN, "action": TOpt(StrN), "rule_part": StrN, "rules": TOpt(TList(Code)),
             "unexpanded_rules": TList(StrN), "expanded_rules": TSet(StrN), "matched": BOOL}
    ret = Entry
    opts = {"alphabet": "noqa:=, -*LT1eblsd", "max_len": 14, "refute_free_native_str": True, "timeout_ms": 5000, "max_unknown": 3}

    def ensures(comment, line_no, line_pos, reference_map, result):
        return parsed_as(result, comment, line_no, line_pos, reference_map)

    def inv_1(reference_map, rule_part, unexpanded_rules, expanded_rules, _i):
        return expanded_rules == expand_upto(reference_map, rule_part, _i)

    def inv_2(reference_map, rule_part, unexpanded_rules, expanded_rules, matched, r, _i, _i1):
        return (expanded_rules == expand_upto(reference_map, rule_part, _i1) | union_upto(reference_map, r, _i)
                and matched == (_i > 0))


_NOQA = "sqlfluff/core/rules/noqa.py"
MUTANTS = [
    ("parse_matched_not_reset", _NOQA, "                        for r in unexpanded_rules:\n                            matched = False\n",
     "                        matched = False\n                        for r in unexpanded_rules:\n"),
    ("parse_enable_disable_swapped", _NOQA, '                        action, rule_part = comment_remainder.split("=", 1)\n',
     '                        action, rule_part = comment_remainder.split("=", 1)\n'
     '                        action = {"enable": "disable", "disable": "enable"}.get(action, action)\n'),
    ("parse_rules_split_on_semicolon", _NOQA, 'r.strip() for r in rule_part.split(",")', 'r.strip() for r in rule_part.split(";")'),
    ("parse_all_not_recognised", _NOQA, '                    if rule_part != "all":\n', '                    if True:\n'),
    ("parse_first_dashes", _NOQA, 'comment = [c.strip() for c in comment.split("--")][-1]', 'comment = [c.strip() for c in comment.split("--")][0]'),
    ("parse_colon_optional", _NOQA, '                if not comment_remainder.startswith(":"):\n', '                if False:\n'),
    ("parse_line_off_by_one", _NOQA, "                    return NoQaDirective(line_no, line_pos, rules, action, comment)",
     "                    return NoQaDirective(line_no + 1, line_pos, rules, action, comment)"),
    ("parse_bare_colon_dropped", _NOQA, "            return NoQaDirective(line_no, line_pos, None, None, comment)\n", "            return None\n"),
    ("parse_first_match_only", _NOQA, "                                expanded_rules |= expanded\n                                matched = True\n",
     "                                expanded_rules |= expanded\n                                matched = True\n                                break\n"),
]



# ================================================================== comment segment -> parse result
from sqlfluff.core.rules.noqa import IgnoreMask as _IgnoreMaskCls  # noqa: E402  (value of the `cls` parameter)
from .c20 import IgnoreMask  # noqa: E402

PositionMarker = ref_class("sqlfluff.core.parser.markers:PositionMarker")
RawSegment = ref_class("sqlfluff.core.parser.segments.raw:RawSegment", pos_marker=PositionMarker)


@spec(uninterpreted=True)
def ltrim(s: StrN) -> StrN:
    """s without leading white space"""
    a = 0
    while a < len(s) and s[a].isspace():
        a += 1
    return s[a:]


@spec(uninterpreted=True)
def rtrim(s: StrN) -> StrN:
    """s without trailing white space"""
    b = len(s)
    while b > 0 and s[b - 1].isspace():
        b -= 1
    return s[:b]


@external("str.lstrip")
class str_lstrip:
    types = {"self": StrN}
    ret = StrN
    functional = True

    def ensures(self, result):
        return result == ltrim(self)


@external("str.rstrip")
class str_rstrip:
    types = {"self": StrN}
    ret = StrN
    functional = True

    def ensures(self, result):
        return result == rtrim(self)


@spec(uninterpreted=True)
def seg_text(c: RawSegment) -> StrN:
    """the text of a comment segment without its inline-comment marker (RawSegment.raw_trimmed: `--` / `#` removed)"""
    return c.raw_trimmed()


@spec(uninterpreted=True)
def pm_line(p: PositionMarker) -> INT:
    """source line of a position marker (C31: get_line_pos_of_char_pos)"""
    return p.source_position()[0]


@spec(uninterpreted=True)
def pm_pos(p: PositionMarker) -> INT:
    return p.source_position()[1]


@external("sqlfluff.core.parser.segments.raw:RawSegment.raw_trimmed", PROP)
class raw_trimmed:
    types = {"self": RawSegment}
    ret = StrN
    functional = True

    def ensures(self, result):
        return result == seg_text(self)


@external("sqlfluff.core.parser.markers:PositionMarker.source_position", PROP)
class source_position:
    types = {"self": PositionMarker}
    ret = TTuple(INT, INT)
    functional = True

    def ensures(self, result):
        return result == (pm_line(self), pm_pos(self))


@spec
def comment_content(c0):
    """comment text (already trimmed) without block comment markers: `/* noqa: disable=all */` is a directive"""
    c1 = rtrim(c0[:-2]) if c0.endswith("*/") else c0
    return ltrim(c1[2:]) if c1.startswith("/*") else c1


@spec
def parsed_as(result, text, line_no, line_pos, m):
    """`result` is what the directive grammar makes of the comment text `text` found at (line_no, line_pos):
    nothing, a malformed-directive error on that line, or a directive with that position, action and rule set"""
    t = directive_text(text)
    k = kind_spec(t)
    c0 = (result is None) == (k == 0)
    c1 = implies(k == 2, kind_of(as_obj(result)) == 2 and as_err(as_obj(result)).line_no == line_no)
    d = as_dir(as_obj(result))
    isd = k == 1 and kind_of(as_obj(result)) == 1
    c2 = implies(k == 1, kind_of(as_obj(result)) == 1 and d.line_no == line_no and d.line_pos == line_pos and not d.used)
    c3 = ((d.action is None) == (not has_action(t)) and (d.action == "enable") == (has_action(t) and action_text(t) == "enable")
          and (d.action == "disable") == (has_action(t) and action_text(t) == "disable")) if isd else True
    c4 = ((d.rules is None) == all_rules(t)) if isd else True
    c5 = (list(some_list(d.rules)) == sorted(rules_spec(m, t))) if (isd and not all_rules(t) and d.rules is not None) else True
    return c0 and c1 and c2 and c3 and c4 and c5


@contract("sqlfluff.core.rules.noqa:IgnoreMask._extract_ignore_from_comment", PROP)
class extract_ignore_from_comment:
    types = {"cls": _IgnoreMaskCls, "comment": RawSegment, "reference_map": RefMap, "comment_content": StrN,
             "comment_line": INT, "comment_pos": INT}
    ret = Entry
    modifies = ["heap:object.segment"]
    opts = {"refute_free_native_str": True, "timeout_ms": 5000, "max_unknown": 3}

    def ensures(comment, reference_map, result):
        c0 = (result is None) == (seg_kind0(comment) == 0)
        c1 = entry_of(result, comment, reference_map) if result is not None else True
        return c0 and c1


# ================================================================== all comments of a file -> mask  (from_tree)
BaseSegment = ref_class("sqlfluff.core.parser.segments.base:BaseSegment")


@spec(uninterpreted=True)
def comments_of(tree: BaseSegment) -> TList(RawSegment):
    """the comment segments of the parse tree, in file order (BaseSegment.recursive_crawl is a pre-order walk)"""
    return list(tree.recursive_crawl("comment"))


@spec(uninterpreted=True)
def is_sql_comment(c: RawSegment) -> BOOL:
    """an inline (`-- ...`, `# ...`) or block (`/* ... */`) comment"""
    return c.is_type("inline_comment", "block_comment")


@external("sqlfluff.core.parser.segments.base:BaseSegment.recursive_crawl", PROP)
class recursive_crawl:
    types = {"self": BaseSegment, "seg_type": StrN}
    ret = TList(RawSegment)
    functional = True

    def requires(self, seg_type):
        return seg_type == "comment"

    def ensures(self, seg_type, result):
        return result == comments_of(self)


@external("sqlfluff.core.parser.segments.base:BaseSegment.is_type", PROP)
class is_type:
    types = {"self": RawSegment, "t1": StrN, "t2": StrN}
    ret = BOOL
    functional = True

    def requires(self, t1, t2):
        return t1 == "inline_comment" and t2 == "block_comment"

    def ensures(self, t1, t2, result):
        return result == is_sql_comment(self)


@external("sqlfluff.core.rules.noqa:IgnoreMask.__init__", PROP)
class new_mask:
    types = {"self": IgnoreMask, "ignores": TList(NoQaDirective)}

    def ensures(self, ignores):
        return self._ignore_list == ignores


@spec
def seg_kind0(c):
    return kind_spec(directive_text(comment_content(trim(seg_text(c)))))


@spec
def seg_kind(c):
    """what the comment segment c is: 0 no directive, 1 a noqa directive, 2 a malformed one"""
    return kind_spec(directive_text(comment_content(trim(seg_text(c))))) if is_sql_comment(c) else 0


@spec(recursive=True)
def seg_count(tree: BaseSegment, k: INT, n: INT) -> INT:
    """number of comments of kind k among the first n comments of the tree"""
    return 0 if n <= 0 else seg_count(tree, k, n - 1) + (1 if seg_kind(comments_of(tree)[n - 1]) == k else 0)


@spec
def parsed_entry(e, text, line_no, line_pos, m):
    """the (non-None) parse result e is what the directive grammar makes of the comment text `text` found at (line_no, line_pos):
    a malformed-directive error on that line, or a directive with that position, action and rule set"""
    t = directive_text(text)
    k = kind_spec(t)
    c1 = implies(k == 2, kind_of(e) == 2 and as_err(e).line_no == line_no)
    d = as_dir(e)
    isd = k == 1 and kind_of(e) == 1
    c2 = implies(k == 1, kind_of(e) == 1 and d.line_no == line_no and d.line_pos == line_pos and not d.used)
    c3 = ((d.action is None) == (not has_action(t)) and (d.action == "enable") == (has_action(t) and action_text(t) == "enable")
          and (d.action == "disable") == (has_action(t) and action_text(t) == "disable")) if isd else True
    c4 = ((d.rules is None) == all_rules(t)) if isd else True
    c5 = (list(some_list(d.rules)) == sorted(rules_spec(m, t))) if (isd and not all_rules(t) and d.rules is not None) else True
    return k != 0 and c1 and c2 and c3 and c4 and c5


@spec(uninterpreted=True)
def entry_of(e: Obj, c: RawSegment, m: RefMap) -> BOOL:
    """e is what comment segment c stands for"""
    return parsed_entry(e, comment_content(trim(seg_text(c))), pm_line(c.pos_marker), pm_pos(c.pos_marker), m)


@spec
def tree_mask(ds, es, tree, m, n):
    """(ds, es) are the directives and malformed-directive errors of the first n comments of the tree: one directive per
    noqa comment, in file order, each on the line of its comment; one error per malformed one"""
    cs = comments_of(tree)
    c1 = len(ds) == seg_count(tree, 1, n) and len(es) == seg_count(tree, 2, n)
    c2 = all(implies(seg_kind(cs[i]) == 1, 0 <= seg_count(tree, 1, i) < len(ds) and entry_of(ds[seg_count(tree, 1, i)], cs[i], m))
             for i in range(0, n))
    c3 = all(implies(seg_kind(cs[i]) == 2, 0 <= seg_count(tree, 2, i) < len(es) and entry_of(es[seg_count(tree, 2, i)], cs[i], m))
             for i in range(0, n))
    return c1 and c2 and c3


@contract("sqlfluff.core.rules.noqa:IgnoreMask.from_tree", PROP)
class from_tree:
    types = {"cls": _IgnoreMaskCls, "tree": BaseSegment, "reference_map": RefMap, "ignore_buff": TList(NoQaDirective),
             "violations": TList(SQLBaseError), "ignore_entry": Entry}
    ret = TTuple(IgnoreMask, TList(SQLBaseError))
    modifies = ["heap:object.segment"]
    opts = {"refute_free_native_str": True, "timeout_ms": 8000, "max_unknown": 3}

    def ensures(tree, reference_map, result):
        return tree_mask(result[0]._ignore_list, result[1], tree, reference_map, len(comments_of(tree)))

    def inv_1(tree, reference_map, ignore_buff, violations, _i):
        return tree_mask(ignore_buff, violations, tree, reference_map, _i)


# ================================================================== bounded companions (labelled; not proofs)
def _failed(ident, function, detail):
    return {"name": ident, "id": ident, "kind": "bounded", "status": "failed", "function": function,
            "backend": "CPython (bounded enumeration)", "detail": detail, "reproduced": True}


def bounded_parse_contract(tier, seed):
    """The contract of _parse_noqa (the very text that is proved) evaluated natively on the real function over the
    documented directive grammar: every directive text of contracts/c20.py's enumeration x comment prefixes, on a small
    synthetic reference map.  Ties the uninterpreted text primitives of the proof (fields / trim / before_first /
    after_first / matching) to their executable meaning."""
    from pyvc.dsl import CONTRACTS
    from pyvc.replay import NativeCheck
    from . import c20 as _m
    key = "sqlfluff.core.rules.noqa:IgnoreMask._parse_noqa"
    nc = NativeCheck(CONTRACTS[key])
    bodies = list(dict.fromkeys(_m._directive_bodies(tier)))
    prefixes = ["", "-- ", "some text -- ", "-- a -- b --", "--- ", "x--y -- "]
    failed, evals, nontrivial, samples = [], 0, 0, []
    refmap = {k: set(v) for k, v in _m.SMALL_MAP.items()}
    for b in bodies:
        for pre in prefixes:
            text = pre + b
            verdict, detail = nc.run({"comment": text, "line_no": 3, "line_pos": 7, "reference_map": refmap})
            evals += 1
            if kind_spec(directive_text(text)) != 0:
                nontrivial += 1
            if verdict != "ok" and len(failed) < 5:
                failed.append(_failed("C20/front-end/parse_noqa-contract", key, {"comment": text, "verdict": verdict, "detail": detail}))
            elif len(samples) < 3 and "=" in text and "," in text:
                samples.append({"comment": text, "verdict": verdict})
    return {"name": "_parse_noqa: executable contract on the directive grammar", "bound": f"{len(bodies)} directive texts x {len(prefixes)} prefixes",
            "rule": "requires/ensures of the proved contract, evaluated by CPython on the real function", "evaluations": evals,
            "distinct_nontrivial": nontrivial, "samples": samples, "failed": failed}


BOUNDED = [bounded_parse_contract]
