"""temporary dry-run module (format check of the stand-ins through pyvc.runner); deleted afterwards"""
from contracts import c04_bounded, c01_bounded, c02_bounded
PROP = "ZZTMP"
LEVEL = "bounded"
EXTRA = c04_bounded.EXTRA
BOUNDED = c04_bounded.BOUNDED + c01_bounded.BOUNDED + c02_bounded.BOUNDED
TRUSTED = []
NOT_COVERED = []
