#!/usr/bin/env python3
"""tools/keep_seed.py <ID> <A|B> <check props...>: confirm a sub-agent's seeded change (demo passes on the clean worktree,
fails with the patch), run our checks against it on /repo (apply, check, undo) and store everything under seeded/."""
import json, os, shutil, subprocess, sys
ROOT = os.path.dirname(os.path.dirname(os.path.abspath(__file__)))
pid, x, props = sys.argv[1], sys.argv[2], sys.argv[3:]
wt = f"/tmp/seed_{pid}"
out = f"{wt}/_out"
env = dict(os.environ, PYTHONPATH=f"{wt}/src")
def sh(cmd, **kw): return subprocess.run(cmd, shell=True, capture_output=True, text=True, **kw)
sh(f"git -C {wt} checkout -- src")
clean = sh(f"cd {wt} && /venv/bin/python _out/demo{x}.py", env=env)
ap = sh(f"git -C {wt} apply {out}/patch{x}.diff")
broken = sh(f"cd {wt} && /venv/bin/python _out/demo{x}.py", env=env)
sh(f"git -C {wt} checkout -- src")
confirmed = clean.returncode == 0 and ap.returncode == 0 and broken.returncode == 1
print("demo clean rc", clean.returncode, "| patch applies", ap.returncode == 0, "| demo broken rc", broken.returncode, broken.stdout.strip()[-200:])
results = {}
if confirmed:
    chk = sh(f"git -C /repo apply --check {out}/patch{x}.diff")
    if chk.returncode != 0:
        results["_note"] = "patch does not apply to /repo HEAD: " + chk.stderr[:200]
    else:
        sh(f"git -C /repo apply {out}/patch{x}.diff")
        try:
            for p in props:
                r = sh(f"cd {ROOT} && timeout 1800 ./check {p} --no-evidence")
                viol = [l for l in r.stdout.splitlines() if l.startswith("VIOLATION")]
                results[p] = {"exit": r.returncode, "caught": r.returncode == 1 and bool(viol), "violations": [v[:300] for v in viol[:4]],
                              "summary": next((l for l in r.stdout.splitlines() if l.startswith("[")), "")}
                print(p, "exit", r.returncode, "caught" if results[p]["caught"] else "MISSED", viol[:1])
        finally:
            sh("git -C /repo checkout -- .")
dst = os.path.join(ROOT, "seeded", f"{pid}_{x}")
os.makedirs(dst, exist_ok=True)
shutil.copy(f"{out}/patch{x}.diff", f"{dst}/patch.diff")
shutil.copy(f"{out}/demo{x}.py", f"{dst}/demo.py")
meta = json.load(open(f"{out}/meta{x}.json")) if os.path.exists(f"{out}/meta{x}.json") else {"property": pid}
meta.update({"breaks_property": pid, "confirmed_by_us": confirmed,
             "what_we_ran": [f"demo on clean worktree -> rc {clean.returncode}", f"demo with patch -> rc {broken.returncode}: {broken.stdout.strip()[-300:]}",
                             "git -C /repo apply patch.diff; ./check <prop> --no-evidence; git -C /repo checkout -- ."],
             "our_checks": results})
json.dump(meta, open(f"{dst}/meta.json", "w"), indent=1)
