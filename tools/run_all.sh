#!/bin/sh
# run every registered quick check sequentially; print one summary line per property
cd "$(dirname "$0")/.."
for p in $(python3 -c "import json;print(' '.join(c['property_id'] for c in json.load(open('MANIFEST.json'))['checks']))") "$@"; do
  /usr/bin/time -f "%es" ./check $p 2>&1 | grep -E "^\[C|^VIOLATION|s$" | tr '\n' ' '; echo
done
