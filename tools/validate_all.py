#!/opt/veriftools/pyvenv/bin/python
"""tools/validate_all.py: MANIFEST.json and every evidence file validate against their schemas, each claimed property has an
evidence file of the claimed level, proof-level files have discharged == obligations, not_applicable + checks cover C01..C34."""
import json, os, sys
import jsonschema
ROOT = os.path.dirname(os.path.dirname(os.path.abspath(__file__)))
m = json.load(open(os.path.join(ROOT, "MANIFEST.json")))
jsonschema.validate(m, json.load(open("/root/.vp/MANIFEST.schema.json")))
es = json.load(open("/root/.vp/EVIDENCE.schema.json"))
bad = 0
ids = set()
for c in m["checks"]:
    pid = c["property_id"]
    ids.add(pid)
    p = os.path.join(ROOT, c["evidence_file"])
    if not os.path.exists(p):
        print("MISSING evidence", pid); bad += 1; continue
    e = json.load(open(p))
    try:
        jsonschema.validate(e, es)
    except jsonschema.ValidationError as x:
        print("INVALID evidence", pid, str(x.message)[:200]); bad += 1
    if e["level"] != c["level_claimed"]["category"]:
        print("LEVEL MISMATCH", pid, "manifest", c["level_claimed"]["category"], "evidence", e["level"]); bad += 1
    cov = e["coverage"]
    if e["level"] == "proof" and cov.get("obligations") != cov.get("discharged"):
        print("PROOF with undischarged obligations", pid, cov.get("obligations"), cov.get("discharged")); bad += 1
    if e.get("violations"):
        print("evidence records violations", pid, e["violations"]); bad += 1
    print(f"{pid} {e['level']:18s} obligations={cov.get('obligations')} discharged={cov.get('discharged')} evaluations={cov.get('evaluations')} "
          f"known={len(cov.get('known_findings_reported', []))} wall={e['wall_s']}")
na = {x["property_id"] for x in m["not_applicable"]}
allp = {f"C{i:02d}" for i in range(1, 35)}
if ids | na != allp or ids & na:
    print("COVERAGE of ids wrong", sorted(allp - ids - na), sorted(ids & na)); bad += 1
sys.exit(1 if bad else 0)
