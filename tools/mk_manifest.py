#!/usr/bin/env python3
"""Regenerates MANIFEST.json from the table below (checks) + NOT_APPLICABLE."""
import json, os
ROOT = os.path.dirname(os.path.dirname(os.path.abspath(__file__)))
TECH = "contract-based deductive verification: VCs generated from the real source AST + sidecar contracts, discharged by z3 (cvc5/z3-4.8 fallback)"
NOTE = ("Trusted: assumed contracts of library functions listed in evidence.trusted_base, z3/cvc5 soundness on unsat, "
        "CPython semantics of the translated subset (DESIGN §2.4). ")
CHECKS = {
 "C31": ("proof", "Full functional correctness of the offset->(line,col) functions against the recursive spec taken from the property text, for all strings and offsets: loop invariant + bisect-rank lemma by induction; VCs regenerated from the real source on every run.", NOTE, TECH, "§5 C31"),
 "C33": ("proof", "deduplicate_in_source_space proved for all inputs: no two results share a signature, every result is the first input with its signature, every signature is represented, result sorted by (line, col).", NOTE + "source_signature overrides assumed deterministic and effect-free.", TECH, "§5 C33"),
 "C30": ("proof", "Per-function contracts of the patch pipeline proved for all finite patch lists: _patches_conflict equals the conflict relation of the property; merge keeps a pairwise non-conflicting, duplicate-free, sorted subset and drops only duplicates/conflicting edits; the slicer returns a tiling of [0,len) with no repeated range; the builder's output is the concatenation of one piece per range (first patch with exactly that range, else original text).", NOTE + "Text is an opaque sort with concat/substring; slicer precondition (sorted, in-bounds, distinct ranges, compatible with source-only slices) is what merge and the C10 filter establish.", TECH, "§5 C30"),
 "C29": ("other", "Exhaustive evaluation of contract preconditions (Dialect.ref / bracket lookups / lexer totality) over the finite constant dialect data of all bundled dialects; one obligation per (dialect, reachable reference).", "Reachability over-approximated by a generic object-graph walk; 170 dangling references are known findings.", "exhaustive evaluation of contract preconditions over constant dialect data (E-level, no SMT)", "§5 C29"),
 "C32": ("other", "Frame/effect clauses discharged syntactically over the real AST of every module: the set of filesystem-writing functions is exactly the declared set and none is reachable from lint/parse/render except through explicit output options; bounded dynamic audit-hook cross-check. Repeatability half NOT decided.", "By-name call resolution over-approximates dynamic dispatch; third-party libraries assumed not to write input files.", "syntactic effect (frame) analysis of the real source + bounded audit-hook cross-check", "§5 C32"),
}
NOT_APPLICABLE = {
 "C03": "well-formedness/indent balance are invariants of all grammar combinators x 30 dialect grammars; no per-function contract within reach expresses them",
 "C05": "quantifies over ~70 rule bodies on arbitrary trees; whole-repository proof is out of reach of contracts",
 "C06": "relational (optimised vs unoptimised parser, across histories); needs product programs over the whole combinator engine",
 "C08": "the oracle is jinja2's renderer, an external program without a formal semantics here",
 "C12": "needs lexer∘serialiser round-trips over every rule's edits; not a property of one call",
 "C13": "needs parser∘fixer composition over every rule's edits",
 "C14": "emergent over the reflow engine (~5000 lines of heuristic layout code)",
 "C16": "the oracle is a SQL engine",
 "C17": "fixpoint of the whole rule set; not a property of one call",
 "C19": "relational across three long call chains with configuration objects",
 "C24": "schedules and process pools; no concurrency support in this family",
}
PENDING = "not built yet in this session (see DESIGN.md §8 build order); will be claimed once its contracts discharge"
ALL = [f"C{i:02d}" for i in range(1, 35)]

def main():
    checks = []
    for pid in sorted(CHECKS):
        cat, text, note, tech, ref = CHECKS[pid]
        checks.append({"property_id": pid, "quick_cmd": f"./check {pid} --tier quick", "thorough_cmd": f"./check {pid} --tier thorough",
                       "evidence_file": f"evidence/{pid}.json", "replay_cmd_template": f"./check {pid} --replay {{path}}", "engine": "pyvc",
                       "level_claimed": {"category": cat, "text": text, "design_ref": "DESIGN.md " + ref}, "level_note": note, "technique": tech})
    na = []
    for pid in ALL:
        if pid in CHECKS:
            continue
        na.append({"property_id": pid, "reason": NOT_APPLICABLE.get(pid, PENDING)})
    m = {"version": 1, "setup_cmd": "./setup.sh",
         "hooks": {"guard": "SQLFLUFF_VERIF", "enable": "no hooks: contracts live in the /verif sidecar; VCs are generated from /repo/src as it is on disk", "baseline_off_cmd": "cd /repo && /venv/bin/python -m pytest -ra -q -p no:cacheprovider --timeout=900 --continue-on-collection-errors", "source_commits": [], "add_only": True},
         "engines": [{"name": "pyvc", "path": "pyvc/", "serves_properties": sorted(CHECKS), "kind_free_text": "home-made VC generator: symbolic execution of the real Python source (ast) against sidecar contracts; obligations discharged by z3 (cvc5 / z3 4.8 fallback); bounded refutation mode; CPython replay of counter-models; exhaustive precondition evaluation and syntactic effect clauses for C29/C32"}],
         "checks": checks, "not_applicable": na,
         "notes": "Exit codes of ./check: 0 held, 1 violation (VIOLATION line), 2 undecided, 3 checker crash. Known findings: known_findings.json."}
    with open(os.path.join(ROOT, "MANIFEST.json"), "w") as f:
        json.dump(m, f, indent=1)
    print("checks:", len(checks), "not_applicable:", len(na))

if __name__ == "__main__":
    main()
