#!/usr/bin/env python3
"""Regenerates MANIFEST.json from the table below (checks) + NOT_APPLICABLE."""
import json, os
ROOT = os.path.dirname(os.path.dirname(os.path.abspath(__file__)))
TECH = "contract-based deductive verification: VCs generated from the real source AST + sidecar contracts, discharged by z3 (cvc5/z3-4.8 fallback)"
NOTE = ("Trusted: assumed contracts of library functions listed in evidence.trusted_base, z3/cvc5 soundness on unsat, "
        "CPython semantics of the translated subset (DESIGN §2.4). ")
CHECKS = {
 "C31": ("proof", "Full functional correctness of the offset->(line,col) functions against the recursive spec taken from the property text, for all strings and offsets: loop invariant + bisect-rank lemma by induction; VCs regenerated from the real source on every run.", NOTE, TECH, "§5 C31"),
 "C33": ("proof", "deduplicate_in_source_space proved for all inputs: no two results share a signature, every result is the first input with its signature, every signature is represented, result sorted by (line, col).", NOTE + "source_signature overrides assumed deterministic and effect-free.", TECH, "§5 C33"),
 "C30": ("proof", "Per-function contracts of the patch pipeline proved for all finite patch lists: _patches_conflict equals the conflict relation of the property; merge keeps a pairwise non-conflicting, duplicate-free, sorted subset and drops only duplicates/conflicting edits; the slicer returns a tiling of [0,len) with no repeated range; the builder's output is the concatenation of one piece per range (first patch with exactly that range, else original text).", NOTE + "Text is an opaque sort with concat/substring; slicer precondition (sorted, in-bounds, distinct ranges, compatible with source-only slices) is what merge and the C10 filter establish.", TECH, "§5 C30"),
 "C10": ("proof", "The last line of defence is proved for every list of patches the fix engine could yield (generator havocked): after the filter loop of generate_source_patches no kept patch overwrites, or inserts strictly inside, a non-literal raw slice unless it is an explicit source-level patch; raw_slices_spanning_source_slice and source_only_slices have full functional contracts; lemma: a safe patch satisfies the slicer's compat precondition (C30).", NOTE + "Earlier filters (has_template_conflicts, discard_unsafe_fixes, _iter_templated_patches) are not trusted and not needed; source-category patches are the property's own exception.", TECH, "§5 C10"),
 "C23": ("proof", "Every reporting function (source_position_dict_from_slice, PositionMarker.source_position/to_source_dict, SQLBaseError.__init__, SQLLintError/SQLParseError/LintFix.to_dict incl. the hoisting and create_before/after branches) is proved to report exactly pos(source, offset) of C31 for the offset it names, with start/end offsets agreeing with line/col and lying within the file.", NOTE + "Premise: token source slices are in bounds (C01/C02); desc/rule_code assumed effect-free.", TECH, "§5 C23"),
 "C07": ("proof", "TemplatedFile.__init__ proved to establish, on every normal return, raw-slice tiling of the source, rendered-slice tiling of the rendered text (when slices and text are given), and the newline tables; since every templater constructs its result through it, the tiling half holds for every templater and variant. RawTemplater.process proved to satisfy the full `valid` predicate (tiling, bounds, literal text equality).", NOTE + "python/jinja/placeholder slicers: bounds and literal-text conjuncts not proved (not covered).", TECH, "§5 C07"),
 "C26": ("fault_enumeration", "Exhaustive fault enumeration of the real _safe_create_replace_file / persist_tree under injected failures at every primitive call (fail / after / partial / kill) x contents x encodings x modes: target always holds old or complete new bytes, no temp file after a failed write, mode/encoding/BOM/suffix facts; plus syntactic exception-flow obligations (only the rename touches the target, handler covers every may-raise site).", "Atomicity of rename within a directory is assumed; a second fault during clean-up is excluded by assumption. pyvc cannot express the ghost filesystem (no global ghost state), so the deductive route was not possible here.", "fault enumeration on the real code + syntactic exception-flow obligations (contract route not expressible: no ghost state)", "§5 C26"),
 "C27": ("other", "14 syntactic data-flow obligations on the real source (combine order defaults<user<cwd..file<extra<overrides, nested_combine stores only deep copies, cached loaders never written) plus bounded stand-ins: nested_combine contract exhaustively on small nestings, end-to-end precedence over source subsets, inline-directive effectiveness per entry point, isolation over lint histories.", "nested_combine is outside pyvc's reach (recursive dict datatype); nothing here is counted as proved.", "syntactic data-flow obligations + bounded executable contracts (deductive route not applicable to nested dicts)", "§5 C27"),
 "C29": ("other", "Exhaustive evaluation of contract preconditions (Dialect.ref / bracket lookups / lexer totality) over the finite constant dialect data of all bundled dialects; one obligation per (dialect, reachable reference).", "Reachability over-approximated by a generic object-graph walk; 170 dangling references are known findings.", "exhaustive evaluation of contract preconditions over constant dialect data (E-level, no SMT)", "§5 C29"),
 "C32": ("other", "Frame/effect clauses discharged syntactically over the real AST of every module: the set of filesystem-writing functions is exactly the declared set and none is reachable from lint/parse/render except through explicit output options; bounded dynamic audit-hook cross-check. Repeatability half NOT decided.", "By-name call resolution over-approximates dynamic dispatch; third-party libraries assumed not to write input files.", "syntactic effect (frame) analysis of the real source + bounded audit-hook cross-check", "§5 C32"),
}
NOT_APPLICABLE = {
 "C03": "well-formedness/indent balance are invariants of all grammar combinators x 30 dialect grammars; no per-function contract within reach expresses them",
 "C05": "quantifies over ~70 rule bodies on arbitrary trees; whole-repository proof is out of reach of contracts",
 "C06": "relational (optimised vs unoptimised parser, across histories); needs product programs over the whole combinator engine",
 "C08": "the oracle is jinja2's renderer, an external program without a formal semantics here",
 "C12": "needs lexer∘serialiser round-trips over every rule's edits; not a property of one call",
 "C13": "needs parser∘fixer composition over every rule's edits",
 "C14": "emergent over the reflow engine (~5000 lines of heuristic layout code)",
 "C16": "the oracle is a SQL engine",
 "C17": "fixpoint of the whole rule set; not a property of one call",
 "C19": "relational across three long call chains with configuration objects",
 "C24": "schedules and process pools; no concurrency support in this family",
}
PENDING = "not built yet in this session (see DESIGN.md §8 build order); will be claimed once its contracts discharge"
ALL = [f"C{i:02d}" for i in range(1, 35)]

def main():
    checks = []
    for pid in sorted(CHECKS):
        cat, text, note, tech, ref = CHECKS[pid]
        checks.append({"property_id": pid, "quick_cmd": f"./check {pid} --tier quick", "thorough_cmd": f"./check {pid} --tier thorough",
                       "evidence_file": f"evidence/{pid}.json", "replay_cmd_template": f"./check {pid} --replay {{path}}", "engine": "pyvc",
                       "level_claimed": {"category": cat, "text": text, "design_ref": "DESIGN.md " + ref}, "level_note": note, "technique": tech})
    na = []
    for pid in ALL:
        if pid in CHECKS:
            continue
        na.append({"property_id": pid, "reason": NOT_APPLICABLE.get(pid, PENDING)})
    m = {"version": 1, "setup_cmd": "./setup.sh",
         "hooks": {"guard": "SQLFLUFF_VERIF", "enable": "no hooks: contracts live in the /verif sidecar; VCs are generated from /repo/src as it is on disk", "baseline_off_cmd": "cd /repo && /venv/bin/python -m pytest -ra -q -p no:cacheprovider --timeout=900 --continue-on-collection-errors", "source_commits": [], "add_only": True},
         "engines": [{"name": "pyvc", "path": "pyvc/", "serves_properties": sorted(CHECKS), "kind_free_text": "home-made VC generator: symbolic execution of the real Python source (ast) against sidecar contracts; obligations discharged by z3 (cvc5 / z3 4.8 fallback); bounded refutation mode; CPython replay of counter-models; exhaustive precondition evaluation and syntactic effect clauses for C29/C32"}],
         "checks": checks, "not_applicable": na,
         "notes": "Exit codes of ./check: 0 held, 1 violation (VIOLATION line), 2 undecided, 3 checker crash. Known findings: known_findings.json."}
    with open(os.path.join(ROOT, "MANIFEST.json"), "w") as f:
        json.dump(m, f, indent=1)
    print("checks:", len(checks), "not_applicable:", len(na))

if __name__ == "__main__":
    main()
