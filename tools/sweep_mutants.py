#!/usr/bin/env python3
"""Run the must-fail mutants of every property (or the given ones) and write mutant_results.json.
usage: tools/sweep_mutants.py [C10 C23 ...]      (uses scratch copies under $TMPDIR, removed afterwards)"""
import importlib, json, os, re, subprocess, sys, time
ROOT = os.path.dirname(os.path.dirname(os.path.abspath(__file__)))
sys.path.insert(0, ROOT)
from pyvc.mutate import run_mutant

def main():
    props = sys.argv[1:] or sorted(f[:-3].upper() for f in os.listdir(os.path.join(ROOT, "contracts")) if re.fullmatch(r"c\d\d\.py", f))
    out_path = os.path.join(ROOT, "mutant_results.json")
    res = json.load(open(out_path)) if os.path.exists(out_path) else {}
    for prop in props:
        try:
            mod = importlib.import_module(f"contracts.{prop.lower()}")
        except Exception as e:
            print(prop, "cannot import:", e); continue
        rows = []
        from concurrent.futures import ThreadPoolExecutor
        par = int(os.environ.get("SWEEP_PAR", "1"))
        muts = list(getattr(mod, "MUTANTS", []))

        def one(m):
            t = time.time()
            rc, out = run_mutant(prop, m[1], m[2], m[3])
            return m, rc, out, time.time() - t
        with ThreadPoolExecutor(max_workers=par) as tp:
            results = list(tp.map(one, muts))
        for (name, relfile, old, new), rc, out, dt in results:
            t = time.time() - dt
            viol = [l for l in out.splitlines() if l.startswith("VIOLATION")]
            failed = [l.split()[1] for l in out.splitlines() if l.strip().startswith("FAILED")]
            kinds = sorted({("native-contract-check" if "native-contract-check" in f else re.sub(r".*/([a-z-]+)\[.*", r"\1", f)) for f in failed})
            rows.append({"mutant": name, "file": relfile, "exit": rc, "caught": rc == 1 and bool(viol), "violations": len(viol),
                         "failed_kinds": kinds, "no_failing_input": sum("no-failing-input-found" in v for v in viol), "wall_s": round(time.time() - t, 1)})
            print(prop, name, "caught" if rows[-1]["caught"] else f"MISSED rc={rc}", kinds, flush=True)
        res[prop] = rows
        json.dump(res, open(out_path, "w"), indent=1)

if __name__ == "__main__":
    main()
