#!/usr/bin/env python3
"""tools/recheck_seeds.py [ID_X ...]: re-run every kept seeded change (seeded/<ID>_<A|B>/) against the CURRENT checks without
touching /repo: the patch is applied to a scratch copy of /repo/src, the demo is run against the clean and the patched copy, and
each check named in meta.json["our_checks"] is run with --src <scratch>/src.  meta.json is updated in place."""
import json, os, shutil, subprocess, sys, tempfile
ROOT = os.path.dirname(os.path.dirname(os.path.abspath(__file__)))
want = sys.argv[1:]


def sh(cmd, **kw):
    return subprocess.run(cmd, shell=True, capture_output=True, text=True, **kw)


for name in sorted(os.listdir(os.path.join(ROOT, "seeded"))):
    d = os.path.join(ROOT, "seeded", name)
    if want and name not in want:
        continue
    if not os.path.exists(os.path.join(d, "patch.diff")):
        continue
    meta = json.load(open(os.path.join(d, "meta.json")))
    props = [p for p in meta.get("our_checks", {}) if not p.startswith("_")] or [meta.get("breaks_property", name.split("_")[0])]
    tmp = tempfile.mkdtemp(prefix="reseed_")
    try:
        shutil.copytree("/repo/src", os.path.join(tmp, "src"))
        shutil.copytree("/repo/test", os.path.join(tmp, "test"), ignore=shutil.ignore_patterns("fixtures")) if False else None
        env = dict(os.environ, PYTHONPATH=os.path.join(tmp, "src"))
        clean = sh(f"cd {tmp} && /venv/bin/python {d}/demo.py", env=env)
        ap = sh(f"cd {tmp} && patch -p1 -s --no-backup-if-mismatch < {d}/patch.diff")
        if ap.returncode != 0:
            print(name, "patch no longer applies to the current /repo source:", (ap.stdout + ap.stderr).strip()[:160])
            meta.setdefault("rechecks", []).append({"head": sh("git -C /repo rev-parse --short HEAD").stdout.strip(),
                                                     "note": "patch does not apply to this HEAD (the touched code was changed by a later fix: commit)"})
            json.dump(meta, open(os.path.join(d, "meta.json"), "w"), indent=1)
            continue
        broken = sh(f"cd {tmp} && /venv/bin/python {d}/demo.py", env=env)
        confirmed = clean.returncode == 0 and broken.returncode == 1
        results = {}
        for p in props:
            r = sh(f"cd {ROOT} && timeout 2400 ./check {p} --src {tmp}/src --no-evidence")
            viol = [l for l in r.stdout.splitlines() if l.startswith("VIOLATION")]
            results[p] = {"exit": r.returncode, "caught": r.returncode == 1 and bool(viol), "violations": [v[:300] for v in viol[:4]],
                          "summary": next((l for l in r.stdout.splitlines() if l.startswith("[")), "")}
        meta["confirmed_by_us"] = confirmed
        meta["our_checks"] = results
        meta["checked_against_head"] = sh("git -C /repo rev-parse --short HEAD").stdout.strip()
        meta["what_we_ran"] = [f"demo on a clean scratch copy of /repo/src -> rc {clean.returncode}",
                               f"demo with patch -> rc {broken.returncode}: {broken.stdout.strip()[-300:]}",
                               "./check <prop> --src <scratch>/src --no-evidence (the patch is never applied to /repo)"]
        json.dump(meta, open(os.path.join(d, "meta.json"), "w"), indent=1)
        print(name, "confirmed" if confirmed else f"NOT CONFIRMED (clean rc {clean.returncode}, broken rc {broken.returncode})",
              {p: ("caught" if v["caught"] else f"MISSED(exit {v['exit']})") for p, v in results.items()})
    finally:
        shutil.rmtree(tmp, ignore_errors=True)
