#!/bin/sh
# tools/try_seed.sh <patch file> <PROP> [more props]: apply a seeded change to /repo, run the checks, undo it.
patch="$1"; shift
cd /repo || exit 9
git diff --quiet || { echo "repo not clean"; exit 9; }
git apply "$patch" || { echo "patch does not apply"; exit 9; }
for p in "$@"; do
  (cd /verif && timeout 1500 ./check "$p" --no-evidence 2>&1 | grep -E "^\[C|^VIOLATION|^KNOWN|UNDECIDED|CRASH" | cut -c1-230 | head -12; )
done
git -C /repo checkout -- . ; git -C /repo status --short | head -3
