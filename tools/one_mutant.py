#!/usr/bin/env python3
"""tools/one_mutant.py <PROP> <mutant name> [...]: run the named must-fail mutants of one property (scratch copy, removed afterwards)"""
import importlib, os, sys
ROOT = os.path.dirname(os.path.dirname(os.path.abspath(__file__)))
sys.path.insert(0, ROOT)
sys.path.insert(0, "/repo/src")
from pyvc.mutate import run_mutant
prop, names = sys.argv[1], set(sys.argv[2:])
mod = importlib.import_module(f"contracts.{prop.lower()}")
for name, relfile, old, new in getattr(mod, "MUTANTS", []):
    if name in names:
        rc, out = run_mutant(prop, relfile, old, new)
        viol = [l for l in out.splitlines() if l.startswith("VIOLATION")]
        print(("caught " if rc == 1 and viol else "MISSED ") + f"{prop} {name} rc={rc}", (viol or out.strip().splitlines()[-1:])[0][:200])
