#!/bin/sh
# tools/import_seed.sh <ID> <A|B> <props...>: store a sub-agent's seeded change from /tmp/seed_<ID>/_out and check it (no /repo edit)
id=$1; x=$2; shift 2
y=${DEST:-$x}      # DEST=C stores the sub-agent's change A as seeded/<ID>_C (a later round)
d="$(dirname "$0")/../seeded/${id}_${y}"; mkdir -p "$d"
cp /tmp/seed_$id/_out/patch$x.diff "$d/patch.diff"; cp /tmp/seed_$id/_out/demo$x.py "$d/demo.py"
python3 - "$d" "$id" "$x" "$@" <<'PY'
import json,sys,os
d,id_,x,*props=sys.argv[1:]
src=f"/tmp/seed_{id_}/_out/meta{x}.json"
m=json.load(open(src)) if os.path.exists(src) else {"property":id_}
m["breaks_property"]=id_
m["our_checks"]={p:{} for p in props}
json.dump(m,open(os.path.join(d,"meta.json"),"w"),indent=1)
PY
"$(dirname "$0")/recheck_seeds.py" "${id}_${y}"
