#!/usr/bin/env python3
"""Regenerates the machine-made tables of DESIGN.md (between the GENERATED markers) from evidence/, mutant_results.json,
seeded/*/meta.json and known_findings.json."""
import glob, json, os, re
ROOT = os.path.dirname(os.path.dirname(os.path.abspath(__file__)))
def load(p, d=None):
    try: return json.load(open(os.path.join(ROOT, p)))
    except Exception: return d
man = load("MANIFEST.json")
rows = ["| id | level | functions under contract (pyvc) | obligations (discharged) | back ends | bounded / evaluated parts | known findings |", "|---|---|---|---|---|---|---|"]
kf = load("known_findings.json", {"findings": [], "fixed": []})
for c in man["checks"]:
    pid = c["property_id"]; e = load(f"evidence/{pid}.json", {}); cov = e.get("coverage", {})
    fns = [f["key"].split(":")[-1] for f in cov.get("functions_under_contract", []) if f.get("kind") in ("function", "lemma")]
    bnd = [b.get("name", "?") + f" ({b.get('evaluations', '?')})" for b in cov.get("bounded_stand_ins", [])]
    nk = sum(1 for f in kf["findings"] if f["property"] == pid)
    rows.append(f"| {pid} | {e.get('level','?')} | {', '.join(fns) or '—'} | {cov.get('obligations','?')} ({cov.get('discharged','?')}) | {', '.join(f'{k}:{v}' for k,v in cov.get('backends',{}).items())} | {'; '.join(bnd) or '—'} | {nk or ''} |")
tab1 = "\n".join(rows)
mr = load("mutant_results.json", {})
rows = ["| property | mutant | caught | failing obligation kinds | exit |", "|---|---|---|---|---|"]
for pid in sorted(mr):
    for m in mr[pid]:
        rows.append(f"| {pid} | {m['mutant']} | {'yes' if m['caught'] else '**no**'} | {', '.join(m['failed_kinds'])[:90]} | {m['exit']} |")
tab2 = "\n".join(rows)
rows = ["| seeded change | breaks | what it needs | confirmed | our checks |", "|---|---|---|---|---|"]
for mp in sorted(glob.glob(os.path.join(ROOT, "seeded/*/meta.json"))):
    m = json.load(open(mp)); name = os.path.basename(os.path.dirname(mp))
    oc = "; ".join(f"{p}: {'caught' if r.get('caught') else 'MISSED (exit %s)' % r.get('exit')}" for p, r in m.get("our_checks", {}).items() if isinstance(r, dict)) or str(m.get("our_checks", {}).get("_note", ""))[:80]
    rows.append(f"| {name} | {m.get('breaks_property')} | {str(m.get('needs',''))[:160]} | {m.get('confirmed_by_us')} | {oc} |")
tab3 = "\n".join(rows)
p = os.path.join(ROOT, "DESIGN.md"); s = open(p).read()
for tag, tab in (("STATUS", tab1), ("MUTANTS", tab2), ("SEEDED", tab3)):
    s = re.sub(rf"<!-- GENERATED:{tag} -->.*?<!-- /GENERATED:{tag} -->", lambda m: f"<!-- GENERATED:{tag} -->\n{tab}\n<!-- /GENERATED:{tag} -->", s, flags=re.S)
open(p, "w").write(s)
print("tables written")
