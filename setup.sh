#!/bin/sh
# Build the overlay virtualenv offline: Python 3.12 from /venv + solver wheels from the wheelhouse,
# plus a .pth so that `import sqlfluff` resolves to the editable install (/repo/src as it is now).
set -e
cd "$(dirname "$0")"
if [ ! -x .venv/bin/python ] || ! .venv/bin/python -c "import z3, sqlfluff" 2>/dev/null; then
  rm -rf .venv
  /venv/bin/python -m venv .venv
  PIP_NO_INDEX=1 .venv/bin/python -m pip install -q --no-index --find-links /opt/veriftools/wheels \
      z3-solver cvc5 jsonschema icontract deal crosshair-tool >/dev/null
  echo "import site; site.addsitedir('/venv/lib/python3.12/site-packages')" \
      > .venv/lib/python3.12/site-packages/_repo_overlay.pth
fi
.venv/bin/python -c "import z3, sqlfluff, jsonschema; print('pyvc venv ok: z3', z3.get_version_string(), 'sqlfluff', sqlfluff.__file__)"
