import sys, time
sys.path.insert(0, "/verif")
import importlib
from pyvc.dsl import CONTRACTS, LEMMAS
from pyvc.verify import gen_function, gen_lemma, solve_obligation
mod = importlib.import_module("contracts." + sys.argv[1])
keys = sys.argv[2:] or [k for k, c in CONTRACTS.items() if c.kind == "verify" and mod.PROP in c.props]
for k in keys:
    t = time.time()
    rep = gen_lemma(LEMMAS[k[6:]], mod.PROP) if k.startswith("lemma:") else gen_function(CONTRACTS[k], mod.PROP)
    print("==", k, "paths", rep.paths, "error", rep.error, "undecided", rep.undecided, f"gen {time.time()-t:.2f}s")
    for ob in rep.obligations:
        solve_obligation(ob, use_cli=False)
        print(f"   {ob.status:11s} {ob.time_s:6.2f}s {ob.name}  {ob.note}")
if len(sys.argv) == 2:
    for n, l in LEMMAS.items():
        rep = gen_lemma(l, mod.PROP)
        print("== lemma", n, rep.error)
        for ob in rep.obligations:
            solve_obligation(ob, use_cli=False)
            print(f"   {ob.status:11s} {ob.time_s:6.2f}s {ob.name}")
